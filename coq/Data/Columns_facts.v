(* Data/Columns_facts.v — facts about the table reader model (Data/Columns.v) over the alias table regenerated from the source:
   detection is sound for every documented header spelling; the monotonic-run splitter returns one data set per sweep. *)
From Coq Require Import ZArith NArith QArith List Bool Lia Lqa.
From PV Require Import Base.Num Base.Outcome Circuit.Tree Data.ColBase gen.Aliases_gen Data.Columns.
Import ListNotations.
Local Open Scope N_scope.

(* ---- header spellings ----------------------------------------------------------------------------------------------- *)
(* unit suffixes: nothing, or "(...", "/...", " (...", " /..." *)
Definition open_char (c : N) : bool := (c =? 40) || (c =? 47).
Definition family_b (sfx : str) : bool :=
  match sfx with
  | [] => true
  | c :: r => open_char c || ((c =? 32) && match r with d :: _ => open_char d | [] => false end)
  end.
Definition family (sfx : str) : Prop := family_b sfx = true.

Inductive marker := MNone | MHyphen | MMinus.
Definition marker_str (m : marker) : str := match m with MNone => [] | MHyphen => [hyphen] | MMinus => [minus_sign] end.
Definition markers : list marker := [MNone; MHyphen; MMinus].
Definition marker_neg (m : marker) : bool := match m with MNone => false | _ => true end.

(* [compat p q] = true: q is not a prefix of p ++ sfx for any suffix of the family *)
Definition tail_compat (q : str) : bool :=     (* q (non-empty) is not a prefix of any family suffix *)
  match q with
  | [] => false
  | b :: q' => if open_char b then false
               else if b =? 32 then match q' with [] => false | c :: _ => negb (open_char c) end
               else true
  end.
Fixpoint compat (p q : str) {struct q} : bool :=
  match q with
  | [] => false
  | b :: q' => match p with
               | [] => tail_compat q
               | a :: p' => if N.eqb a b then compat p' q' else true
               end
  end.

Lemma tail_compat_sound q sfx : family sfx -> tail_compat q = true -> starts_with sfx q = false.
Proof.
  unfold family, family_b, tail_compat. intros Hf H. destruct q as [|b q']; [discriminate|].
  destruct sfx as [|c r]; [reflexivity|]. simpl. destruct (N.eqb b c) eqn:E; [|reflexivity]. apply N.eqb_eq in E. subst c.
  destruct (open_char b) eqn:Eo; [discriminate|]. simpl in Hf.
  destruct (b =? 32) eqn:Es; [|discriminate]. simpl in Hf.
  destruct q' as [|c q'']; [discriminate|]. destruct r as [|d r']; [discriminate|]. simpl.
  destruct (N.eqb c d) eqn:E2; [|reflexivity]. apply N.eqb_eq in E2. subst d. rewrite Hf in H. discriminate.
Qed.

Lemma compat_sound q : forall p sfx, family sfx -> compat p q = true -> starts_with (p ++ sfx) q = false.
Proof.
  induction q as [|b q IH]; intros p sfx Hf H; [discriminate|].
  destruct p as [|a p].
  - simpl app. apply tail_compat_sound; auto.
  - simpl in H. simpl. destruct (N.eqb a b) eqn:E.
    + apply N.eqb_eq in E. subst. rewrite N.eqb_refl. simpl. apply IH; auto.
    + rewrite N.eqb_sym, E. reflexivity.
Qed.

Lemma starts_with_self p : forall s, starts_with (p ++ s) p = true.
Proof. induction p as [|a p IH]; intro s; simpl; [reflexivity|]. rewrite N.eqb_refl. apply IH. Qed.

(* the keys walked before k *)
Fixpoint before (k : kind) (keys : list kind) : list kind :=
  match keys with [] => [] | x :: r => if kind_eqb x k then [] else x :: before k r end.

(* the whole alias table: no pattern of an earlier key can match a spelled header of a later key, and no alias starts with a
   sign marker — decided by computation on the regenerated table *)
Definition patterns (k : kind) : list str :=
  flat_map (fun a => map (fun m => marker_str m ++ a) markers) (aliases k).
Definition no_cross_match : bool :=
  forallb (fun k => forallb (fun p => forallb (fun k' => forallb (fun q => compat p q) (patterns k')) (before k key_order)) (patterns k)) key_order.
Definition no_alias_starts_with_marker : bool :=
  forallb (fun k => forallb (fun a => match a with c :: _ => negb ((c =? hyphen) || (c =? minus_sign)) | [] => false end) (aliases k)) key_order.
Definition all_kinds_walked : bool := forallb (fun k => existsb (kind_eqb k) key_order) [KFreq; KImag; KReal; KMag; KPhase].

Lemma table_ok : no_cross_match = true /\ no_alias_starts_with_marker = true /\ all_kinds_walked = true.
Proof. vm_compute. repeat split. Qed.

Lemma kind_eqb_eq a b : kind_eqb a b = true <-> a = b.
Proof. destruct a, b; simpl; split; intro H; try reflexivity; try discriminate. Qed.
Lemma kind_eqb_refl a : kind_eqb a a = true. Proof. destruct a; reflexivity. Qed.

Lemma in_key_order k : In k key_order.
Proof.
  destruct table_ok as (_ & _ & H). unfold all_kinds_walked in H. rewrite forallb_forall in H.
  assert (Hk : In k [KFreq; KImag; KReal; KMag; KPhase]) by (destruct k; simpl; auto 10).
  specialize (H k Hk). apply existsb_exists in H. destruct H as (x & Hx & E). apply kind_eqb_eq in E. subst. exact Hx.
Qed.

Definition spell (m : marker) (a sfx : str) : str := marker_str m ++ a ++ sfx.

Lemma alt_matches_pattern col a m : starts_with col (marker_str m ++ a) = true -> alt_matches col a = true.
Proof. unfold alt_matches. destruct m; simpl marker_str; simpl app; intro H; rewrite H; rewrite ?orb_true_r; reflexivity. Qed.

Lemma alt_matches_inv col a : alt_matches col a = true -> exists m, starts_with col (marker_str m ++ a) = true.
Proof.
  unfold alt_matches. intro H. apply orb_true_iff in H. destruct H as [H|H]; [apply orb_true_iff in H; destruct H as [H|H]|].
  - exists MNone. exact H.
  - exists MHyphen. exact H.
  - exists MMinus. exact H.
Qed.

Lemma spelled_matches_own k m a sfx : In a (aliases k) -> existsb (alt_matches (spell m a sfx)) (aliases k) = true.
Proof.
  intro Ha. apply existsb_exists. exists a. split; auto. apply (alt_matches_pattern _ a m).
  unfold spell. rewrite app_assoc. apply starts_with_self.
Qed.

Lemma in_patterns k a m : In a (aliases k) -> In (marker_str m ++ a) (patterns k).
Proof.
  intro Ha. unfold patterns. apply in_flat_map. exists a. split; auto. apply in_map_iff. exists m. split; auto.
  destruct m; simpl; auto.
Qed.

Lemma spelled_no_earlier_match k m a sfx k' :
  In a (aliases k) -> family sfx -> In k' (before k key_order) -> existsb (alt_matches (spell m a sfx)) (aliases k') = false.
Proof.
  intros Ha Hf Hk'. destruct table_ok as (Hc & _ & _). unfold no_cross_match in Hc. rewrite forallb_forall in Hc.
  specialize (Hc k (in_key_order k)). rewrite forallb_forall in Hc. specialize (Hc _ (in_patterns k a m Ha)).
  rewrite forallb_forall in Hc. specialize (Hc k' Hk'). rewrite forallb_forall in Hc.
  destruct (existsb (alt_matches (spell m a sfx)) (aliases k')) eqn:E; [|reflexivity]. exfalso.
  apply existsb_exists in E. destruct E as (a' & Ha' & Hm). apply alt_matches_inv in Hm. destruct Hm as (m' & Hm).
  pose proof (Hc _ (in_patterns k' a' m' Ha')) as Hcompat.
  unfold spell in Hm. rewrite app_assoc in Hm. rewrite (compat_sound _ _ sfx Hf Hcompat) in Hm. discriminate.
Qed.

Lemma first_key_general col f k : forall keys,
  (forall k', In k' (before k keys) -> existsb (alt_matches col) (aliases k') = false) ->
  In k keys -> has f k = false -> existsb (alt_matches col) (aliases k) = true -> first_key col f keys = Some k.
Proof.
  induction keys as [|x r IH]; intros Hb Hin Hf Hm; [contradiction|]. simpl.
  destruct (kind_eqb x k) eqn:E.
  - apply kind_eqb_eq in E. subst x. rewrite Hf, Hm. reflexivity.
  - assert (Hx : existsb (alt_matches col) (aliases x) = false) by (apply Hb; simpl; rewrite E; left; reflexivity).
    rewrite Hx. destruct Hin as [Hin|Hin]; [subst; rewrite kind_eqb_refl in E; discriminate|].
    assert (IH' : first_key col f r = Some k).
    { apply IH; auto. intros k' Hk'. apply Hb. simpl. rewrite E. right. exact Hk'. }
    destruct (has f x); exact IH'.
Qed.

Lemma first_key_spelled k m a sfx f :
  In a (aliases k) -> family sfx -> has f k = false -> first_key (spell m a sfx) f key_order = Some k.
Proof.
  intros Ha Hf Hh. apply first_key_general; auto.
  - intros k' Hk'. apply (spelled_no_earlier_match k m a sfx k'); auto.
  - apply in_key_order.
  - apply spelled_matches_own; auto.
Qed.

Lemma is_negative_spelled k m a sfx : In a (aliases k) -> is_negative (spell m a sfx) = marker_neg m.
Proof.
  intro Ha. destruct m; simpl; try reflexivity.
  destruct table_ok as (_ & Hn & _). unfold no_alias_starts_with_marker in Hn. rewrite forallb_forall in Hn.
  specialize (Hn k (in_key_order k)). rewrite forallb_forall in Hn. specialize (Hn a Ha).
  destruct a as [|c a]; [discriminate|]. simpl. apply negb_true_iff in Hn. exact Hn.
Qed.

(* a table whose columns are spelled for distinct kinds, in any order *)
Record spelled := mkSp { sk : kind; sm : marker; sa : str; ssfx : str }.
Definition wf (c : spelled) : Prop := In (sa c) (aliases (sk c)) /\ family (ssfx c).
Definition header_of (c : spelled) : str := spell (sm c) (sa c) (ssfx c).
Fixpoint expected (i : nat) (cs : list spelled) : found :=
  match cs with [] => [] | c :: r => (sk c, (i, marker_neg (sm c))) :: expected (S i) r end.

Lemma has_app f g k : has (f ++ g) k = has f k || has g k.
Proof. unfold has. apply existsb_app. Qed.

Theorem detect_loop_sound : forall (cs : list spelled) (raw : list str) (i : nat) (f : found),
  Forall wf cs -> NoDup (map sk cs) -> (forall c, In c cs -> has f (sk c) = false) ->
  map norm raw = map header_of cs ->
  detect_loop raw i f = f ++ expected i cs.
Proof.
  induction cs as [|c cs IH]; intros raw i f Hwf Hnd Hf Hraw; destruct raw as [|h raw]; try discriminate.
  - simpl. rewrite app_nil_r. reflexivity.
  - simpl in Hraw. inversion Hraw as [[Hh Hr]]. inversion Hwf as [|? ? [Ha Hfam] Hwf']; subst.
    inversion Hnd as [|? ? Hnotin Hnd']; subst. cbn [detect_loop]. rewrite Hh. unfold header_of.
    rewrite (first_key_spelled (sk c) (sm c) (sa c) (ssfx c) f Ha Hfam) by (apply Hf; left; reflexivity).
    rewrite (is_negative_spelled (sk c) (sm c) (sa c) (ssfx c) Ha).
    rewrite (IH raw (S i) (f ++ [(sk c, (i, marker_neg (sm c)))])); auto.
    + rewrite <- app_assoc. reflexivity.
    + intros c' Hc'. rewrite has_app. rewrite (Hf c') by (right; exact Hc'). simpl. unfold has. simpl.
      destruct (kind_eqb (sk c) (sk c')) eqn:E; [|reflexivity]. apply kind_eqb_eq in E. exfalso. apply Hnotin.
      rewrite E. apply in_map. exact Hc'.
Qed.

(* C06, detection: any column order, any alias, any marker, any suffix of the family: every kind is found at its index with
   its sign *)
Theorem detect_sound (cs : list spelled) (raw : list str) :
  Forall wf cs -> NoDup (map sk cs) -> map norm raw = map header_of cs ->
  detect_loop raw 0 [] = expected 0 cs.
Proof. intros. rewrite (detect_loop_sound cs raw 0 []); auto. Qed.

(* case: upper-casing an alias and lower-casing it again gives the alias back (aliases are lower case already) *)
Definition upper_char (c : N) : N := if (97 <=? c) && (c <=? 122) then c - 32 else c.
Definition aliases_lower_ok : bool :=
  forallb (fun k => forallb (fun a => str_eqb (lower a) a && str_eqb (lower (map upper_char a)) a && str_eqb (strip a) a) (aliases k)) key_order.
Lemma aliases_case_insensitive : aliases_lower_ok = true.
Proof. vm_compute. reflexivity. Qed.

(* the five headers that DataSet.to_dataframe (hence the CLI's parse command) writes are such spellings, also with a marker *)
Definition cli_header_ok (kh : kind * str) : bool :=
  existsb (fun a => starts_with (norm (snd kh)) a && family_b (skipn (length a) (norm (snd kh)))) (aliases (fst kh)).
Lemma cli_headers_in_family : forallb cli_header_ok cli_headers = true.
Proof. vm_compute. reflexivity. Qed.

Fixpoint list_eqb {A} (eqb : A -> A -> bool) (l m : list A) : bool :=
  match l, m with [], [] => true | x :: l', y :: m' => eqb x y && list_eqb eqb l' m' | _, _ => false end.
Definition found_eqb (a b : found) : bool :=
  list_eqb (fun x y => kind_eqb (fst x) (fst y) && Nat.eqb (fst (snd x)) (fst (snd y)) && Bool.eqb (snd (snd x)) (snd (snd y))) a b.
Lemma cli_table_detected :
  match detect_columns (map snd cli_headers) with
  | Ok f => found_eqb f [(KFreq, (0, false)); (KReal, (1, false)); (KImag, (2, false)); (KMag, (3, false)); (KPhase, (4, false))]%nat
  | _ => false
  end = true.
Proof. vm_compute. reflexivity. Qed.

(* ---- sweeps ------------------------------------------------------------------------------------------------------------- *)
Local Open Scope nat_scope.

Definition dir_lt (dec : bool) (x y : Q) : bool := if dec then qlt y x else qlt x y.   (* y continues the run after x *)

Fixpoint mono (dec : bool) (l : list Q) : Prop :=
  match l with
  | [] => True
  | x :: r => match r with [] => True | y :: _ => dir_lt dec x y = true end /\ mono dec r
  end.

Lemma run_length_bounds dec : forall rest x n, run_length dec x rest = Some n -> 1 <= n <= S (length rest).
Proof.
  induction rest as [|y r IH]; intros x n H; simpl in H.
  - inversion H. simpl. lia.
  - destruct (if dec then qlt y x else qlt x y).
    + destruct (run_length dec y r) as [m|] eqn:E; [|discriminate]. inversion H; subst. specialize (IH y m E). simpl. lia.
    + destruct (if dec then qlt x y else qlt y x); [|discriminate]. inversion H. simpl. lia.
Qed.

Lemma run_length_mono dec : forall rest x n, run_length dec x rest = Some n -> mono dec (firstn n (x :: rest)).
Proof.
  induction rest as [|y r IH]; intros x n H; simpl in H.
  - inversion H. simpl. auto.
  - destruct (if dec then qlt y x else qlt x y) eqn:E1.
    + destruct (run_length dec y r) as [m|] eqn:E; [|discriminate]. inversion H; subst.
      pose proof (run_length_bounds dec r y m E) as Hb. specialize (IH y m E).
      destruct m as [|m]; [lia|]. cbn [firstn] in *. split; [|exact IH]. unfold dir_lt. exact E1.
    + destruct (if dec then qlt x y else qlt y x); [|discriminate]. inversion H. simpl. auto.
Qed.

(* what _split_sweeps returns partitions the rows, in order, into non-empty strictly monotonic runs *)
Lemma split_fuel_partition dec : forall fuel fs ns, split_fuel fuel dec fs = Ok ns ->
  fold_right plus 0 ns = length fs /\ Forall (fun n => 1 <= n) ns.
Proof.
  induction fuel as [|fuel IH]; intros fs ns H; simpl in H.
  - destruct fs; [inversion H; simpl; auto|discriminate].
  - destruct fs as [|x rest]; [inversion H; simpl; auto|].
    destruct (run_length dec x rest) as [n|] eqn:E; [|discriminate].
    destruct (split_fuel fuel dec (skipn n (x :: rest))) as [l| |] eqn:E2; try discriminate. inversion H; subst.
    pose proof (run_length_bounds dec rest x n E) as Hb. destruct (IH _ _ E2) as [Hs Hf]. split.
    + simpl fold_right. rewrite Hs, skipn_length. simpl length. lia.
    + constructor; [lia|exact Hf].
Qed.

Fixpoint chunks (ns : list nat) (l : list Q) : list (list Q) :=
  match ns with [] => [] | n :: r => firstn n l :: chunks r (skipn n l) end.

Lemma split_fuel_mono dec : forall fuel fs ns, split_fuel fuel dec fs = Ok ns -> Forall (mono dec) (chunks ns fs).
Proof.
  induction fuel as [|fuel IH]; intros fs ns H; simpl in H.
  - destruct fs; [inversion H; simpl; auto|discriminate].
  - destruct fs as [|x rest]; [inversion H; simpl; auto|].
    destruct (run_length dec x rest) as [n|] eqn:E; [|discriminate].
    destruct (split_fuel fuel dec (skipn n (x :: rest))) as [l| |] eqn:E2; try discriminate. inversion H; subst.
    cbn [chunks]. constructor; [apply run_length_mono; exact E|apply IH; exact E2].
Qed.

Lemma chunks_concat : forall ns l, fold_right plus 0 ns = length l -> concat (chunks ns l) = l.
Proof.
  induction ns as [|n r IH]; intros l H; simpl in *.
  - destruct l; [reflexivity|discriminate].
  - rewrite IH; [apply firstn_skipn|]. rewrite skipn_length. lia.
Qed.

Theorem sweeps_partition fs ns :
  split_sweeps fs = Ok ns ->
  concat (chunks ns fs) = fs /\ Forall (fun n => 1 <= n) ns
  /\ exists dec, Forall (mono dec) (chunks ns fs).
Proof.
  unfold split_sweeps. destruct fs as [|x [|y r]]; intro H; [discriminate| |].
  - inversion H; subst. simpl. repeat split; auto. exists true. repeat constructor.
  - destruct (split_fuel_partition _ _ _ _ H) as [Hs Hf]. split; [apply chunks_concat; exact Hs|]. split; [exact Hf|].
    exists (qlt y x). eapply split_fuel_mono; eauto.
Qed.

(* conversely: k consecutive sweeps in one direction, each turning back at its end, come out as exactly k data sets *)
Definition last_q (l : list Q) (d : Q) : Q := last l d.

Lemma run_length_app dec : forall s x y t,
  mono dec (x :: s) -> dir_lt dec y (last (x :: s) x) = true ->      (* the next sweep starts by going back *)
  run_length dec x (s ++ y :: t) = Some (S (length s)).
Proof.
  induction s as [|z s IH]; intros x y t Hm Hb.
  - simpl in *. unfold dir_lt in Hb.
    destruct dec; simpl.
    + destruct (qlt y x) eqn:E1.
      * apply Qltb_lt in E1. apply Qltb_lt in Hb. lra.
      * rewrite Hb. reflexivity.
    + destruct (qlt x y) eqn:E1.
      * apply Qltb_lt in E1. apply Qltb_lt in Hb. lra.
      * rewrite Hb. reflexivity.
  - cbn [app run_length]. destruct Hm as [H1 Hm]. unfold dir_lt in H1. rewrite H1.
    rewrite (IH z y t Hm); [reflexivity|]. 
    replace (last (z :: s) z) with (last (x :: z :: s) x); [exact Hb|].
    clear. cbn [last]. destruct s; [reflexivity|]. revert q. induction s as [|a s IH]; intro q; [reflexivity|]. 
    change (last (q :: a :: s) x) with (last (a :: s) x). change (last (q :: a :: s) z) with (last (a :: s) z). apply IH.
Qed.

Lemma run_length_last dec : forall s x, mono dec (x :: s) -> run_length dec x s = Some (S (length s)).
Proof.
  induction s as [|z s IH]; intros x Hm; [reflexivity|].
  cbn [run_length]. destruct Hm as [H1 Hm]. unfold dir_lt in H1. rewrite H1. rewrite (IH z Hm). reflexivity.
Qed.

(* sweeps as non-empty lists (head, tail) *)
Definition sweep := (Q * list Q)%type.
Definition sw_list (s : sweep) : list Q := fst s :: snd s.
Fixpoint chain (dec : bool) (sw : list sweep) : Prop :=
  match sw with
  | [] => True
  | s :: r => mono dec (sw_list s)
              /\ match r with [] => True | s' :: _ => dir_lt dec (fst s') (last (sw_list s) (fst s)) = true end
              /\ chain dec r
  end.

Lemma split_fuel_nil fuel dec : split_fuel fuel dec [] = Ok [].
Proof. destruct fuel; reflexivity. Qed.

Lemma skipn_app_exact {A} (a b : list A) : skipn (length a) (a ++ b) = b.
Proof. induction a; simpl; auto. Qed.

Lemma split_fuel_chain dec : forall sw fuel, length sw <= fuel -> chain dec sw ->
  split_fuel fuel dec (concat (map sw_list sw)) = Ok (map (fun s => length (sw_list s)) sw).
Proof.
  induction sw as [|[x s0] r IH]; intros fuel Hfuel Hc.
  - simpl. apply split_fuel_nil.
  - destruct fuel as [|fuel]; [simpl in Hfuel; lia|]. simpl in Hfuel.
    destruct Hc as (Hm & Hback & Hr). cbn [map concat sw_list fst snd app].
    assert (Hrun : run_length dec x (s0 ++ concat (map sw_list r)) = Some (S (length s0))).
    { destruct r as [|[y t0] r']; [simpl; rewrite app_nil_r; apply run_length_last; exact Hm|].
      cbn [map concat sw_list fst snd app]. apply run_length_app; auto. }
    cbn [split_fuel]. rewrite Hrun.
    replace (skipn (S (length s0)) (x :: s0 ++ concat (map sw_list r))) with (concat (map sw_list r))
      by (cbn [skipn]; rewrite skipn_app_exact; reflexivity).
    rewrite (IH fuel) by (auto; lia). reflexivity.
Qed.

Lemma concat_length_ge (sw : list sweep) : length sw <= length (concat (map sw_list sw)).
Proof. induction sw as [|[x s] r IH]; simpl; [lia|]. rewrite app_length. lia. Qed.

(* C06, sweeps: a file that holds k consecutive sweeps in one direction (the first with at least two points), each followed by a
   jump back, is split into exactly those k sweeps; a file with a single point is one data set *)
Theorem consecutive_sweeps_split dec x y s0 (r : list sweep) :
  chain dec ((x, y :: s0) :: r) ->
  split_sweeps (concat (map sw_list ((x, y :: s0) :: r))) = Ok (map (fun s => length (sw_list s)) ((x, y :: s0) :: r)).
Proof.
  intro Hc. pose proof Hc as Hc0. destruct Hc as ((H1 & _) & _ & _). unfold dir_lt in H1.
  assert (Hdec : qlt y x = dec).
  { destruct dec; simpl in H1; [exact H1|]. destruct (qlt y x) eqn:E; [|reflexivity].
    unfold qlt in *. apply Qltb_lt in E. apply Qltb_lt in H1. exfalso. apply (Qlt_irrefl x). eapply Qlt_trans; eauto. }
  unfold split_sweeps. cbn [map concat sw_list fst snd app]. rewrite Hdec.
  change (x :: y :: s0 ++ concat (map sw_list r)) with (concat (map sw_list ((x, y :: s0) :: r))).
  apply split_fuel_chain; auto. apply concat_length_ge.
Qed.

Theorem single_point_is_one_sweep x : split_sweeps [x] = Ok [1].
Proof. reflexivity. Qed.

(* ---- signs ---------------------------------------------------------------------------------------------------------------- *)
Lemma sgn_involutive neg q : Qeq (sgn neg (sgn neg q)) q.
Proof. destruct neg; simpl; [apply Qopp_involutive|reflexivity]. Qed.

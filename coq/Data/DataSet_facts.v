(* Data/DataSet_facts.v — the code-shaped model of DataSet refines the reference model of triples. *)
From Coq Require Import ZArith QArith Bool List Lia Permutation.
From PV Require Import Base.Num Base.Outcome Data.DataSet Data.DataSpec.
Import ListNotations.
Open Scope Z_scope.

(* ---------- dictionaries ---------------------------------------------------------------------- *)
Fixpoint dnodup (d : dict) : bool :=
  match d with [] => true | (k, _) :: r => negb (dhas k r) && dnodup r end.

Lemma dget_dset j k v d dflt : dget j (dset k v d) dflt = if Z.eqb j k then v else dget j d dflt.
Proof.
  induction d as [|[k' v'] r IH]; simpl.
  - destruct (Z.eqb j k); auto.
  - destruct (Z.eqb k k') eqn:E; simpl.
    + apply Z.eqb_eq in E. subst k'. destruct (Z.eqb j k); auto.
    + destruct (Z.eqb j k') eqn:E2.
      * apply Z.eqb_eq in E2. subst k'. destruct (Z.eqb j k) eqn:E3; auto.
        apply Z.eqb_eq in E3. subst. rewrite Z.eqb_refl in E. discriminate.
      * apply IH.
Qed.

Lemma dhas_dset j k v d : dhas j (dset k v d) = Z.eqb j k || dhas j d.
Proof.
  induction d as [|[k' v'] r IH]; simpl.
  - rewrite orb_false_r. auto.
  - destruct (Z.eqb k k') eqn:E; simpl.
    + apply Z.eqb_eq in E. subst k'. destruct (Z.eqb j k); auto.
    + rewrite IH. destruct (Z.eqb j k'), (Z.eqb j k); auto.
Qed.

Lemma dget_nohas j d dflt : dhas j d = false -> dget j d dflt = dflt.
Proof.
  induction d as [|[k v] r IH]; simpl; auto. destruct (Z.eqb j k); simpl; [discriminate|auto].
Qed.

Lemma dget_filter (P : Z -> bool) j d dflt :
  P j = true -> dget j (filter (fun kv => P (fst kv)) d) dflt = dget j d dflt.
Proof.
  intro HP. induction d as [|[k v] r IH]; simpl; auto.
  destruct (P k) eqn:E; simpl; destruct (Z.eqb j k) eqn:E2; auto.
  apply Z.eqb_eq in E2. subst. congruence.
Qed.

Lemma dhas_filter (P : Z -> bool) j d :
  P j = true -> dhas j (filter (fun kv => P (fst kv)) d) = dhas j d.
Proof.
  intro HP. induction d as [|[k v] r IH]; simpl; auto.
  destruct (P k) eqn:E; simpl; destruct (Z.eqb j k) eqn:E2; simpl; auto.
  apply Z.eqb_eq in E2. subst. congruence.
Qed.

Lemma dhas_filter_le (P : Z -> bool) j d : dhas j (filter (fun kv => P (fst kv)) d) = true -> dhas j d = true.
Proof.
  induction d as [|[k v] r IH]; simpl; auto.
  destruct (P k); simpl; destruct (Z.eqb j k); simpl; auto.
Qed.

Lemma dnodup_filter (P : Z -> bool) d : dnodup d = true -> dnodup (filter (fun kv => P (fst kv)) d) = true.
Proof.
  induction d as [|[k v] r IH]; simpl; auto. rewrite andb_true_iff, negb_true_iff. intros [H1 H2].
  destruct (P k); simpl; auto. rewrite IH; auto. rewrite andb_true_r, negb_true_iff.
  destruct (dhas k (filter (fun kv => P (fst kv)) r)) eqn:E; auto. apply dhas_filter_le in E. congruence.
Qed.

(* ---------- canonical dictionaries of flags ---------------------------------------------------- *)
Fixpoint enumb (i : Z) (fl : list bool) : dict :=
  match fl with [] => [] | b :: r => (i, b) :: enumb (i + 1) r end.

Lemma enum_flags_enumb i ts : enum_flags i ts = enumb i (map tm ts).
Proof. revert i. induction ts as [|t r IH]; intro i; simpl; auto. rewrite IH. auto. Qed.

Lemma dhas_enumb_lt fl : forall i j, j < i -> dhas j (enumb i fl) = false.
Proof.
  induction fl as [|b r IH]; intros i j H; simpl; auto.
  rewrite IH by lia. destruct (Z.eqb j i) eqn:E; auto. apply Z.eqb_eq in E. lia.
Qed.

Lemma dnodup_enumb fl : forall i, dnodup (enumb i fl) = true.
Proof. induction fl as [|b r IH]; intro i; simpl; auto. rewrite dhas_enumb_lt by lia. simpl. apply IH. Qed.

Lemma dset_enumb_mid v rest : forall done i,
  dset (i + Z.of_nat (length done)) v (enumb i (done ++ (hd false rest) :: tl rest)) =
  enumb i (done ++ v :: tl rest).
Proof.
  induction done as [|b r IH]; intro i; simpl.
  - rewrite Z.add_0_r, Z.eqb_refl. auto.
  - destruct (Z.eqb (i + Z.pos (Pos.of_succ_nat (length r))) i) eqn:E; [apply Z.eqb_eq in E; lia|].
    f_equal. replace (i + Z.pos (Pos.of_succ_nat (length r))) with ((i + 1) + Z.of_nat (length r)) by lia.
    apply IH.
Qed.

(* ---------- triples ------------------------------------------------------------------------------- *)
Definition repr (ts : list triple) : ds := mkDS (map tf ts) (map tz ts) (enum_flags 0 ts).

Definition withflags (ts : list triple) (fl : list bool) : list triple :=
  map (fun tb => (tf (fst tb), tz (fst tb), snd tb)) (combine ts fl).

Lemma tm_mk f z b : tm (f, z, b) = b.  Proof. reflexivity. Qed.
Lemma tf_mk f z b : tf (f, z, b) = f.  Proof. reflexivity. Qed.
Lemma tz_mk f z b : tz (f, z, b) = z.  Proof. reflexivity. Qed.

Lemma triple_eta (t : triple) : (tf t, tz t, tm t) = t.
Proof. destruct t as [[f z] m]. auto. Qed.

Lemma remask_out ts : forall i m, (forall j, i <= j -> dhas j m = false) -> remask i ts m = ts.
Proof.
  induction ts as [|t r IH]; intros i m H; simpl; auto.
  rewrite H by lia. rewrite triple_eta. f_equal. apply IH. intros j Hj. apply H. lia.
Qed.

Lemma dhas_app j a b : dhas j (a ++ b) = dhas j a || dhas j b.
Proof. induction a as [|[k v] r IH]; simpl; auto. rewrite IH, orb_assoc. auto. Qed.

Lemma dget_app_nohas j a b d : dhas j a = false -> dget j (a ++ b) d = dget j b d.
Proof.
  induction a as [|[k v] r IH]; simpl; auto. destruct (Z.eqb j k); simpl; [discriminate|auto].
Qed.

(* remask against a canonical dictionary, possibly preceded by entries with smaller keys *)
Lemma remask_enumb ts : forall fl i pre,
  length fl = length ts -> (forall j, i <= j -> dhas j pre = false) ->
  remask i ts (pre ++ enumb i fl) = withflags ts fl.
Proof.
  induction ts as [|t r IH]; intros fl i pre Hlen Hpre; destruct fl as [|b fl]; simpl in *; try discriminate; auto.
  rewrite dhas_app, dget_app_nohas by (apply Hpre; lia). simpl. rewrite Z.eqb_refl. simpl.
  rewrite orb_true_r. unfold withflags. simpl. f_equal.
  replace (pre ++ (i, b) :: enumb (i + 1) fl) with ((pre ++ [(i, b)]) ++ enumb (i + 1) fl) by (rewrite <- app_assoc; auto).
  apply IH; [lia|]. intros j Hj. rewrite dhas_app, Hpre by lia. simpl.
  rewrite orb_false_r. apply Z.eqb_neq. lia.
Qed.

Lemma remask_enumb0 ts fl : length fl = length ts -> remask 0 ts (enumb 0 fl) = withflags ts fl.
Proof. intro H. apply (remask_enumb ts fl 0 [] H). auto. Qed.

Lemma withflags_self ts : withflags ts (map tm ts) = ts.
Proof. unfold withflags. induction ts as [|t r IH]; simpl; auto. rewrite IH, triple_eta. auto. Qed.

Lemma withflags_tf ts fl : length fl = length ts -> map tf (withflags ts fl) = map tf ts.
Proof.
  unfold withflags. revert fl. induction ts as [|t r IH]; intros [|b fl]; simpl; try discriminate; auto.
  intro H. rewrite IH by lia. auto.
Qed.
Lemma withflags_tz ts fl : length fl = length ts -> map tz (withflags ts fl) = map tz ts.
Proof.
  unfold withflags. revert fl. induction ts as [|t r IH]; intros [|b fl]; simpl; try discriminate; auto.
  intro H. rewrite IH by lia. auto.
Qed.
Lemma withflags_tm ts fl : length fl = length ts -> map tm (withflags ts fl) = fl.
Proof.
  unfold withflags. revert fl. induction ts as [|t r IH]; intros [|b fl]; simpl; try discriminate; auto.
  intro H. rewrite IH by lia. auto.
Qed.

Lemma remask_tf ts : forall i m, map tf (remask i ts m) = map tf ts.
Proof. induction ts as [|t r IH]; intros; simpl; auto. rewrite IH. auto. Qed.
Lemma remask_tz ts : forall i m, map tz (remask i ts m) = map tz ts.
Proof. induction ts as [|t r IH]; intros; simpl; auto. rewrite IH. auto. Qed.
Lemma remask_length ts : forall i m, length (remask i ts m) = length ts.
Proof. induction ts as [|t r IH]; intros; simpl; auto. Qed.

(* composing a single assignment with a later dictionary *)
Lemma remask_cons ts : forall i k v m,
  dhas k m = false -> remask i (remask i ts [(k, v)]) m = remask i ts ((k, v) :: m).
Proof.
  induction ts as [|t r IH]; intros i k v m Hk; simpl; auto.
  rewrite IH by auto. f_equal. rewrite ?tf_mk, ?tz_mk, ?tm_mk, ?orb_false_r. simpl. rewrite ?orb_false_r.
  destruct (Z.eqb i k) eqn:E; simpl; auto.
  apply Z.eqb_eq in E. subst. rewrite Hk. auto.
Qed.

Lemma dset_enum_remask ts : forall i k v,
  i <= k < i + Z.of_nat (length ts) ->
  dset k v (enum_flags i ts) = enum_flags i (remask i ts [(k, v)]).
Proof.
  induction ts as [|t r IH]; intros i k v H; simpl in *; [lia|].
  rewrite ?orb_false_r, ?tm_mk. simpl. destruct (Z.eqb k i) eqn:E.
  - apply Z.eqb_eq in E. subst k. rewrite Z.eqb_refl.
    rewrite remask_out; auto. intros j Hj. simpl. rewrite orb_false_r. apply Z.eqb_neq. lia.
  - rewrite Z.eqb_sym, E. f_equal. apply IH. apply Z.eqb_neq in E. lia.
Qed.

Lemma dupdate_enum ts : forall m,
  dnodup m = true -> (forall k, dhas k m = true -> 0 <= k < Z.of_nat (length ts)) ->
  dupdate (enum_flags 0 ts) m = enum_flags 0 (remask 0 ts m).
Proof.
  unfold dupdate. intro m. revert ts. induction m as [|[k v] r IH]; intros ts Hnd Hr; simpl.
  - rewrite remask_out; auto.
  - simpl in Hnd. apply andb_true_iff in Hnd. destruct Hnd as [Hk Hnd]. apply negb_true_iff in Hk.
    rewrite dset_enum_remask by (apply Hr; simpl; rewrite Z.eqb_refl; auto).
    rewrite IH; auto.
    + rewrite remask_cons; auto.
    + intros k' Hk'. rewrite remask_length. apply Hr. simpl. rewrite Hk'. apply orb_true_r.
Qed.

(* ---------- set_mask --------------------------------------------------------------------------------- *)
Definition inrange (n : Z) (k : Z) : bool := negb ((k <? 0) || (n <=? k)).

Lemma remask_filter ts : forall i n m,
  i + Z.of_nat (length ts) <= n -> 0 <= i ->
  remask i ts (filter (fun kv => inrange n (fst kv)) m) = remask i ts m.
Proof.
  induction ts as [|t r IH]; intros i n m H Hi; simpl in *; auto.
  assert (Hin : inrange n i = true).
  { unfold inrange. apply negb_true_iff. apply orb_false_iff. split; [apply Z.ltb_ge; lia|apply Z.leb_gt; lia]. }
  rewrite (dhas_filter (inrange n)), (dget_filter (inrange n)) by auto. f_equal. apply IH; lia.
Qed.

Lemma init_mask_enum ts : init_mask (length ts) = enum_flags 0 (map (fun t => (tf t, tz t, false)) ts).
Proof.
  unfold init_mask. rewrite enum_flags_enumb, map_map. simpl.
  assert (H : forall (l : list triple) i, map (fun k => (Z.of_nat k, false)) (seq i (length l)) =
                               enumb (Z.of_nat i) (map (fun _ => false) l)).
  { induction l as [|t r IH]; intro i; simpl; auto. f_equal. rewrite IH. f_equal. lia. }
  apply (H ts 0%nat).
Qed.

Lemma allfalse_withflags ts : map (fun t => (tf t, tz t, false)) ts = withflags ts (map (fun _ => false) ts).
Proof. unfold withflags. induction ts as [|t r IH]; simpl; auto. rewrite IH. auto. Qed.

Lemma set_mask_repr ts m :
  dnodup m = true ->
  set_mask (repr ts) m = repr (fst (spec_step ts (SetMask m))).
Proof.
  intro Hnd. unfold set_mask, repr, npoints. simpl. rewrite map_length.
  destruct m as [|kv m'].
  - simpl. rewrite map_map. simpl. rewrite map_map. simpl. f_equal.
    rewrite init_mask_enum. rewrite (enum_flags_enumb 0 (map _ ts)), map_map. simpl.
    rewrite dupdate_enum.
    + rewrite remask_enumb0 by (rewrite !map_length; auto).
      rewrite enum_flags_enumb, withflags_tm by (rewrite !map_length; auto). auto.
    + apply dnodup_enumb.
    + intros k Hk. destruct (Z_lt_dec k 0) as [H|H]; [rewrite dhas_enumb_lt in Hk by lia; discriminate|].
      split; [lia|]. clear -Hk H.
      assert (G : forall (l : list triple) i, dhas k (enumb i (map (fun _ => false) l)) = true -> k < i + Z.of_nat (length l)).
      { induction l as [|t r IH]; intros i; simpl; [discriminate|].
        destruct (Z.eqb k i) eqn:E; simpl; [apply Z.eqb_eq in E; lia|]. intro H'. apply IH in H'. lia. }
      apply (G ts 0) in Hk. lia.
  - set (m := kv :: m') in *. simpl fst.
    change (fst (spec_step ts (SetMask m))) with (remask 0 ts m).
    rewrite remask_tf, remask_tz. f_equal.
    change (fun kv0 : Z * bool => negb ((fst kv0 <? 0) || (Z.of_nat (length ts) <=? fst kv0)))
      with (fun kv0 : Z * bool => inrange (Z.of_nat (length ts)) (fst kv0)).
    rewrite dupdate_enum.
    + rewrite remask_filter by lia. auto.
    + apply dnodup_filter. auto.
    + intros k Hk.
      assert (Hin : inrange (Z.of_nat (length ts)) k = true).
      { clear -Hk. induction m as [|[k' v] r IH]; simpl in *; [discriminate|].
        destruct (inrange (Z.of_nat (length ts)) k') eqn:E; simpl in *; auto.
        destruct (Z.eqb k k') eqn:E2; simpl in *; auto. apply Z.eqb_eq in E2. subst. auto. }
      unfold inrange in Hin. apply negb_true_iff, orb_false_iff in Hin. destruct Hin as [H1 H2].
      apply Z.ltb_ge in H1. apply Z.leb_gt in H2. lia.
Qed.

(* ---------- views ---------------------------------------------------------------------------------- *)
Lemma dget_enum ts : forall i k t, nth_error ts k = Some t -> dget (i + Z.of_nat k) (enum_flags i ts) false = tm t.
Proof.
  induction ts as [|t0 r IH]; intros i k t H; destruct k; simpl in *; try discriminate.
  - inversion H; subst. rewrite Z.add_0_r, Z.eqb_refl. auto.
  - destruct (Z.eqb (i + Z.pos (Pos.of_succ_nat k)) i) eqn:E; [apply Z.eqb_eq in E; lia|].
    replace (i + Z.pos (Pos.of_succ_nat k)) with ((i + 1) + Z.of_nat k) by lia. apply IH. auto.
Qed.

Lemma view_from_spec {A} (g : triple -> A) (m : dict) (b : bool) : forall suffix i,
  (forall k t, nth_error suffix k = Some t -> dget (i + Z.of_nat k) m false = tm t) ->
  view_from i (map g suffix) m b = map g (filter (fun t => Bool.eqb (tm t) b) suffix).
Proof.
  induction suffix as [|t r IH]; intros i H; simpl; auto.
  pose proof (H 0%nat t eq_refl) as H0. simpl in H0. rewrite Z.add_0_r in H0. rewrite H0.
  assert (Hr : view_from (i + 1) (map g r) m b = map g (filter (fun t0 => Bool.eqb (tm t0) b) r)).
  { apply IH. intros k t' Hk. replace (i + 1 + Z.of_nat k) with (i + Z.of_nat (S k)) by lia. apply H. auto. }
  rewrite Hr. destruct (Bool.eqb (tm t) b); auto.
Qed.

Lemma filter_ext_eq {A} (p q : A -> bool) l : (forall x, p x = q x) -> filter p l = filter q l.
Proof. intro H. induction l; simpl; auto. rewrite H, IHl. auto. Qed.

Lemma observe_repr ok ts : observe ok true (repr ts) = spec_obs ok ts.
Proof.
  unfold observe, spec_obs, get_fs, get_zs, repr. simpl.
  rewrite !(view_from_spec _ (enum_flags 0 ts)) by (intros k t H; apply (dget_enum ts 0 k t H)).
  rewrite (filter_ext_eq (fun t => Bool.eqb (tm t) false) (fun t => negb (tm t))) by (intro x; destruct (tm x); auto).
  rewrite (filter_ext_eq (fun t => Bool.eqb (tm t) true) tm) by (intro x; destruct (tm x); auto).
  auto.
Qed.

(* ---------- low_pass / high_pass ---------------------------------------------------------------------- *)
Lemma pass_loop_enumb cmp : forall suffix done,
  pass_loop cmp (Z.of_nat (length done)) (map tf suffix) (enumb 0 (done ++ map tm suffix)) =
  enumb 0 (done ++ map (fun t => tm t || cmp (tf t)) suffix).
Proof.
  induction suffix as [|t r IH]; intro done; simpl; auto.
  assert (Hnext : forall b, enumb 0 (done ++ b :: map tm r) = enumb 0 ((done ++ [b]) ++ map tm r))
    by (intro b; rewrite <- app_assoc; auto).
  replace (Z.of_nat (length done) + 1) with (Z.of_nat (length (done ++ [tm t || cmp (tf t)]))) by (rewrite app_length; simpl; lia).
  destruct (cmp (tf t)) eqn:E.
  - pose proof (dset_enumb_mid true (tm t :: map tm r) done 0) as Hd. simpl in Hd. rewrite Hd.
    rewrite orb_true_r. rewrite Hnext, IH. rewrite <- app_assoc. auto.
  - rewrite orb_false_r. rewrite Hnext, IH. rewrite <- app_assoc. auto.
Qed.

Lemma pass_repr cmp ts : ts <> [] ->
  set_mask (repr ts) (pass_loop cmp 0 (dfs (repr ts)) (dmask (repr ts))) =
  repr (map (fun t => (tf t, tz t, tm t || cmp (tf t))) ts).
Proof.
  intro Hne. unfold repr at 2 3. simpl. rewrite enum_flags_enumb.
  pose proof (pass_loop_enumb cmp ts []) as H. simpl in H. rewrite H.
  rewrite set_mask_repr by apply dnodup_enumb.
  destruct (enumb 0 (map (fun t => tm t || cmp (tf t)) ts)) eqn:E.
  - destruct ts; [congruence|discriminate].
  - rewrite <- E. clear E. change (fst (spec_step ts (SetMask ?m))) with (fst (spec_step ts (SetMask m))).
    assert (Hs : forall m, m <> [] -> fst (spec_step ts (SetMask m)) = remask 0 ts m) by (intros [|? ?] Hm; [congruence|auto]).
    rewrite Hs by (destruct ts; [congruence|discriminate]).
    rewrite remask_enumb0 by (rewrite map_length; auto). f_equal.
    unfold withflags. clear. induction ts as [|t r IH]; simpl; auto. rewrite IH. auto.
Qed.

(* ---------- subtract ---------------------------------------------------------------------------------- *)
Lemma enum_flags_map_keep (h : triple -> triple) ts : (forall t, tm (h t) = tm t) -> forall i,
  enum_flags i (map h ts) = enum_flags i ts.
Proof. intros Hh. induction ts as [|t r IH]; intro i; simpl; auto. rewrite Hh, IH. auto. Qed.

Lemma subtract_repr ts a :
  subtract (repr ts) a =
  (if snd (spec_step ts (Subtract a)) then Ok (repr (fst (spec_step ts (Subtract a)))) else Err EValue).
Proof.
  destruct a as [c|l]; simpl.
  - unfold subtract, repr. simpl. f_equal. rewrite !map_map. simpl.
    rewrite (enum_flags_map_keep (fun t => (tf t, csub (tz t) c, tm t))) by auto. auto.
  - unfold subtract. simpl. rewrite map_length. destruct (Nat.eqb (length l) (length ts)) eqn:E; simpl; auto.
    f_equal. unfold repr. apply Nat.eqb_eq in E. f_equal.
    + revert l E. induction ts as [|t r IH]; intros [|c l] E; simpl in *; try discriminate; auto.
      f_equal. apply IH. lia.
    + revert l E. induction ts as [|t r IH]; intros [|c l] E; simpl in *; try discriminate; auto.
      f_equal. apply IH. lia.
    + generalize 0. revert l E. induction ts as [|t r IH]; intros [|c l] E i; simpl in *; try discriminate; auto.
      f_equal. apply IH. lia.
Qed.

(* ---------- the constructor ---------------------------------------------------------------------------- *)
Lemma attach_tf fs : forall zs i m, length fs = length zs -> map tf (attach i fs zs m) = fs.
Proof. induction fs as [|f r IH]; intros [|z zs] i m H; simpl in *; try discriminate; auto; rewrite IH by lia; auto. Qed.
Lemma attach_tz fs : forall zs i m, length fs = length zs -> map tz (attach i fs zs m) = zs.
Proof. induction fs as [|f r IH]; intros [|z zs] i m H; simpl in *; try discriminate; auto; rewrite IH by lia; auto. Qed.
Lemma attach_length fs : forall zs i m, length fs = length zs -> length (attach i fs zs m) = length fs.
Proof. induction fs as [|f r IH]; intros [|z zs] i m H; simpl in *; try discriminate; auto; rewrite IH by lia; auto. Qed.

Lemma remask_attach fs : forall zs i m, length fs = length zs ->
  remask i (attach i fs zs []) m = attach i fs zs m.
Proof.
  induction fs as [|f r IH]; intros [|z zs] i m H; simpl in *; try discriminate; auto.
  rewrite IH by lia. f_equal. rewrite ?tf_mk, ?tz_mk, ?tm_mk. simpl.
  destruct (dhas i m) eqn:E; auto. rewrite dget_nohas; auto.
Qed.

Lemma attach_allfalse fs : forall zs i, attach i fs zs [] = map (fun t => (tf t, tz t, false)) (attach i fs zs []).
Proof. induction fs as [|f r IH]; intros [|z zs] i; simpl; auto. rewrite <- IH. auto. Qed.

Lemma attach_app a : forall b i f z m, length a = length b ->
  attach i (a ++ [f]) (b ++ [z]) m = attach i a b m ++ [(f, z, dget (i + Z.of_nat (length a)) m false)].
Proof.
  induction a as [|x a IH]; intros [|y b] i f z m H; simpl in *; try discriminate.
  - rewrite Z.add_0_r. auto.
  - rewrite IH by lia. replace (i + 1 + Z.of_nat (length a)) with (i + Z.of_nat (S (length a))) by lia. auto.
Qed.

Lemma attach_rev fs : forall zs i j m m',
  length fs = length zs ->
  (forall k, (k < length fs)%nat -> dget (i + Z.of_nat k) m' false = dget (j + Z.of_nat (length fs - 1 - k)) m false) ->
  attach i (rev fs) (rev zs) m' = rev (attach j fs zs m).
Proof.
  induction fs as [|f r IH]; intros [|z zs] i j m m' Hlen H; simpl in *; try discriminate; auto.
  rewrite attach_app by (rewrite !rev_length; lia). rewrite rev_length.
  rewrite (IH zs i (j + 1) m m') by (try lia; intros k Hk; rewrite H by lia; f_equal; lia).
  f_equal. f_equal. f_equal. rewrite H by lia. f_equal. lia.
Qed.

Lemma dget_reverse_mask n m : forall acc j dflt,
  dnodup m = true ->
  dget j (fold_left (fun a kv => dset (n - 1 - fst kv) (snd kv) a) m acc) dflt =
  if dhas (n - 1 - j) m then dget (n - 1 - j) m dflt else dget j acc dflt.
Proof.
  induction m as [|[k v] r IH]; intros acc j dflt Hnd; simpl in *; auto.
  apply andb_true_iff in Hnd. destruct Hnd as [Hk Hnd]. apply negb_true_iff in Hk.
  rewrite IH by auto. rewrite dget_dset.
  destruct (Z.eqb (n - 1 - j) k) eqn:E; simpl.
  - apply Z.eqb_eq in E. subst k. rewrite Hk. replace (n - 1 - (n - 1 - j)) with j by lia. rewrite Z.eqb_refl. auto.
  - destruct (dhas (n - 1 - j) r); auto.
    destruct (Z.eqb j (n - 1 - k)) eqn:E2; auto. apply Z.eqb_eq in E2. apply Z.eqb_neq in E. lia.
Qed.

Lemma existsb_app_l {A} (p : A -> bool) a b : existsb p (a ++ b) = existsb p a || existsb p b.
Proof. apply existsb_app. Qed.

Lemma Qeq_bool_sym a b : Qeq_bool a b = Qeq_bool b a.
Proof.
  destruct (Qeq_bool a b) eqn:E1, (Qeq_bool b a) eqn:E2; auto.
  - apply Qeq_bool_iff in E1. symmetry in E1. apply Qeq_bool_iff in E1. congruence.
  - apply Qeq_bool_iff in E2. symmetry in E2. apply Qeq_bool_iff in E2. congruence.
Qed.

Lemma has_dup_snoc l x : has_dup (l ++ [x]) = has_dup l || existsb (Qeq_bool x) l.
Proof.
  induction l as [|a l IH]; simpl; auto. rewrite IH, existsb_app. simpl. rewrite (Qeq_bool_sym a x).
  destruct (existsb (Qeq_bool a) l), (Qeq_bool x a), (has_dup l), (existsb (Qeq_bool x) l); auto.
Qed.

Lemma existsb_rev {A} (p : A -> bool) l : existsb p (rev l) = existsb p l.
Proof. induction l; simpl; auto. rewrite existsb_app, IHl. simpl. rewrite orb_false_r, orb_comm. auto. Qed.

Lemma has_dup_rev l : has_dup (rev l) = has_dup l.
Proof. induction l as [|a l IH]; simpl; auto. rewrite has_dup_snoc, IH, existsb_rev, orb_comm. auto. Qed.

Definition tinv (ts : list triple) : Prop :=
  ts <> [] /\ has_dup (map tf ts) = false /\
  match map tf ts with f0 :: _ => Qltb f0 (last (map tf ts) f0) = false | [] => True end.

Lemma Qltb_asym a b : Qltb a b = true -> Qltb b a = false.
Proof. intro H. apply Qltb_lt in H. destruct (Qltb b a) eqn:E; auto. apply Qltb_lt in E. exfalso. eapply Qlt_irrefl, Qlt_trans; eauto. Qed.

Lemma last_rev_hd' (l : list Q) d : last (rev l) d = hd d l.
Proof. destruct l; simpl; auto. induction (rev l) as [|x r IH]; simpl; auto. destruct (r ++ [q]) eqn:E; auto. destruct r; discriminate. Qed.

Lemma hd_rev_last' (l : list Q) d : hd d (rev l) = last l d.
Proof. rewrite <- (rev_involutive l) at 2. rewrite last_rev_hd'. auto. Qed.

Lemma construct_repr fs zs mask :
  valid_input fs zs = true -> (match mask with Some m => dnodup m = true | None => True end) ->
  construct fs zs mask = Ok (repr (spec_construct fs zs mask), mask) /\ tinv (spec_construct fs zs mask).
Proof.
  unfold valid_input. rewrite !andb_true_iff, !negb_true_iff. intros [[Hlen Hne] Hdup] Hm.
  unfold construct. rewrite Hlen. apply Nat.eqb_eq in Hlen. simpl.
  destruct fs as [|f0 fr] eqn:Efs; [simpl in Hne; discriminate|]. rewrite <- Efs in *.
  rewrite Hdup. remember (match mask with Some m => m | None => [] end) as m0 eqn:Heqm0.
  assert (Hm0 : dnodup m0 = true) by (rewrite Heqm0; destruct mask; auto).
  assert (Hfs : fs <> []) by (rewrite Efs; discriminate).
  unfold spec_construct. rewrite Efs. rewrite <- Efs. rewrite <- Heqm0.
  assert (Hlast : last fs f0 = last fs f0) by auto.
  destruct (Qltb f0 (last fs f0)) eqn:Easc.
  - (* ascending input: flipped *)
    set (n := Z.of_nat (length fs)).
    assert (Hatt : attach 0 (rev fs) (rev zs) (match m0 with [] => m0 | _ :: _ => reverse_mask n m0 end) = rev (attach 0 fs zs m0)).
    { apply attach_rev; auto. intros k Hk. destruct m0 as [|kv m0'] eqn:Em0.
      - simpl. auto.
      - rewrite <- Em0 in *. unfold reverse_mask. rewrite dget_reverse_mask by auto.
        replace (n - 1 - (0 + Z.of_nat k)) with (0 + Z.of_nat (length fs - 1 - k)) by (unfold n; lia).
        destruct (dhas (0 + Z.of_nat (length fs - 1 - k)) m0) eqn:Eh; auto.
        rewrite (dget_nohas _ _ _ Eh). reflexivity. }
    split.
    + f_equal. f_equal.
      assert (Hrl : length (rev fs) = length (rev zs)) by (rewrite !rev_length; auto).
      remember (match m0 with [] => m0 | _ :: _ => reverse_mask n m0 end) as m1 eqn:Hm1.
      assert (Hinit : mkDS (rev fs) (rev zs) (init_mask (length fs)) = repr (attach 0 (rev fs) (rev zs) [])).
      { unfold repr. rewrite attach_tf, attach_tz by auto. f_equal.
        rewrite <- (rev_length fs), <- (attach_length (rev fs) (rev zs) 0 []) by auto.
        rewrite init_mask_enum, <- attach_allfalse. auto. }
      rewrite Hinit. rewrite set_mask_repr.
      * rewrite <- Hatt. f_equal.
        destruct m1 as [|kv m1'].
        -- simpl. rewrite <- attach_allfalse. auto.
        -- change (remask 0 (attach 0 (rev fs) (rev zs) []) (kv :: m1') = attach 0 (rev fs) (rev zs) (kv :: m1')).
           apply remask_attach; auto.
      * rewrite Hm1. destruct m0 as [|kv m0'] eqn:Em0; auto. rewrite <- Em0 in *.
        unfold reverse_mask. clear -Hm0.
        assert (G : forall m acc, dnodup acc = true -> dnodup (fold_left (fun a kv => dset (n - 1 - fst kv) (snd kv) a) m acc) = true).
        { induction m as [|[k v] r IH]; intros acc Ha; simpl; auto. apply IH.
          clear -Ha. induction acc as [|[k' v'] r' IH']; simpl in *; auto.
          apply andb_true_iff in Ha. destruct Ha as [H1 H2]. destruct (Z.eqb (n - 1 - k) k') eqn:E; simpl.
          - rewrite H1. auto.
          - rewrite IH' by auto. rewrite dhas_dset. apply negb_true_iff in H1. rewrite H1.
            rewrite Z.eqb_sym, E. auto. }
        apply G. auto.
    + unfold tinv. rewrite map_rev, attach_tf by auto. split; [|split].
      * intro Hc. apply (f_equal (@length triple)) in Hc. rewrite rev_length, attach_length in Hc by auto.
        rewrite Efs in Hc. discriminate.
      * rewrite has_dup_rev. auto.
      * destruct (rev fs) as [|g gr] eqn:Er.
        -- auto.
        -- assert (Hg : g = last fs f0) by (rewrite <- (hd_rev_last' fs f0), Er; auto). 
           assert (Hl : last (g :: gr) g = f0).
           { rewrite <- Er. rewrite last_rev_hd'. rewrite Efs. auto. }
           rewrite Hl, Hg. apply Qltb_asym. auto.
  - (* descending (or single point): kept *)
    split.
    + f_equal. f_equal.
      assert (Hinit : mkDS fs zs (init_mask (length fs)) = repr (attach 0 fs zs [])).
      { unfold repr. rewrite attach_tf, attach_tz by auto. f_equal.
        rewrite <- (attach_length fs zs 0 []) at 1 by auto.
        rewrite init_mask_enum, <- attach_allfalse. auto. }
      rewrite Hinit, set_mask_repr by auto. f_equal. clear Heqm0 Hm0. destruct m0 as [|kv m0'].
      * simpl. rewrite <- attach_allfalse. auto.
      * change (remask 0 (attach 0 fs zs []) (kv :: m0') = attach 0 fs zs (kv :: m0')).
        apply remask_attach; auto.
    + unfold tinv. rewrite attach_tf by auto. split; [|split; auto].
      * intro Hc. apply (f_equal (@length triple)) in Hc. rewrite attach_length in Hc by auto. rewrite Efs in Hc. discriminate.
      * rewrite Efs. rewrite <- Efs. auto.
Qed.

(* ---------- dictionaries: export and import ------------------------------------------------------------ *)
Lemma combine_fst_snd {A B} (l : list (A * B)) : combine (map fst l) (map snd l) = l.
Proof. induction l as [|[a b] r IH]; simpl; auto. rewrite IH. auto. Qed.

Lemma tinv_valid ts : tinv ts -> valid_input (map tf ts) (map tz ts) = true.
Proof.
  intros (Hne & Hdup & _). unfold valid_input. rewrite !map_length, Nat.eqb_refl, Hdup. simpl.
  destruct ts; [congruence|auto].
Qed.

Lemma spec_construct_desc fs zs mask :
  match fs with f0 :: _ => Qltb f0 (last fs f0) = false | [] => True end ->
  spec_construct fs zs mask = attach 0 fs zs (match mask with Some m => m | None => [] end).
Proof. unfold spec_construct. destruct fs; auto. intros ->. auto. Qed.

Lemma attach_self ts : forall i, attach i (map tf ts) (map tz ts) (enum_flags i ts) = ts.
Proof.
  assert (G : forall suffix i m, (forall k t, nth_error suffix k = Some t -> dget (i + Z.of_nat k) m false = tm t) ->
               attach i (map tf suffix) (map tz suffix) m = suffix).
  { induction suffix as [|t r IH]; intros i m H; simpl; auto.
    pose proof (H 0%nat t eq_refl) as H0. simpl in H0. rewrite Z.add_0_r in H0. rewrite H0, triple_eta. f_equal.
    apply IH. intros k t' Hk. replace (i + 1 + Z.of_nat k) with (i + Z.of_nat (S k)) by lia. apply H. auto. }
  intro i. apply G. intros k t H. apply dget_enum. auto.
Qed.

Lemma from_dict_repr ts dv dm :
  tinv ts ->
  from_dict (drop_keys dv dm (to_dict (repr ts))) =
  (Ok (repr (if dm then map (fun t => (tf t, tz t, false)) ts else ts)), drop_keys dv dm (to_dict (repr ts))).
Proof.
  intro Hinv. pose proof (tinv_valid _ Hinv) as Hval. destruct Hinv as (Hne & Hdup & Hasc).
  unfold from_dict, to_dict, drop_keys. simpl.
  assert (Hv : match (if dv then None else Some 2) with Some v0 => v0 | None => 2 end = 2) by (destruct dv; auto).
  rewrite Hv. simpl. rewrite combine_fst_snd.
  f_equal.
  destruct dm; cbv iota beta.
  - destruct (construct_repr (map tf ts) (map tz ts) (@Some dict [])) as [Hc _]; auto.
    rewrite Hc. f_equal. f_equal. rewrite spec_construct_desc by auto.
    assert (G : forall l i, attach i (map tf l) (map tz l) [] = map (fun t => (tf t, tz t, false)) l).
    { induction l as [|t r IH]; intro i; simpl; auto. rewrite IH. auto. }
    apply G.
  - destruct (construct_repr (map tf ts) (map tz ts) (@Some dict (enum_flags 0 ts))) as [Hc _]; auto.
    { rewrite enum_flags_enumb. apply dnodup_enumb. }
    rewrite Hc. f_equal. f_equal. rewrite spec_construct_desc by auto. apply attach_self.
Qed.

Lemma qlist_eqb_refl l : qlist_eqb l l = true.
Proof. induction l; simpl; auto. rewrite IHl, andb_true_r. apply Qeq_bool_iff. reflexivity. Qed.
Lemma clist_eqb_refl l : clist_eqb l l = true.
Proof.
  induction l as [|[a b] r IH]; simpl; auto. rewrite IH, andb_true_r. unfold cplx_eqb. simpl.
  apply andb_true_iff. split; apply Qeq_bool_iff; reflexivity.
Qed.
Lemma dict_eqb_refl l : dict_eqb l l = true.
Proof. induction l as [|[k v] r IH]; simpl; auto. rewrite IH, Z.eqb_refl, eqb_reflx. auto. Qed.
Lemma ds_eqb_refl d : ds_eqb d d = true.
Proof. unfold ds_eqb. rewrite qlist_eqb_refl, clist_eqb_refl, dict_eqb_refl. auto. Qed.

(* ---------- one operation ------------------------------------------------------------------------------ *)
Definition op_wf (o : dop) : bool := match o with SetMask m => dnodup m | _ => true end.

Lemma spec_step_tf ts o : map tf (fst (spec_step ts o)) = map tf ts.
Proof.
  destruct o as [[|kv m]|c|c|[c|l]|dv dm|]; simpl; auto; rewrite ?map_map; simpl; auto.
  - apply remask_tf.
  - destruct (Nat.eqb (length l) (length ts)) eqn:E; simpl; auto. apply Nat.eqb_eq in E.
    revert l E. induction ts as [|t r IH]; intros [|c l] E; simpl in *; try discriminate; auto. f_equal. apply IH. lia.
  - destruct dm; auto. rewrite map_map. auto.
Qed.

Lemma tinv_step ts o : tinv ts -> tinv (fst (spec_step ts o)).
Proof.
  intros (Hne & Hdup & Hasc). unfold tinv. rewrite spec_step_tf. split; [|split; auto].
  intro Hc. apply (f_equal (map tf)) in Hc. rewrite spec_step_tf in Hc. destruct ts; [congruence|discriminate].
Qed.

Lemma dstep_repr ts o :
  tinv ts -> op_wf o = true ->
  dstep (repr ts) o = (repr (fst (spec_step ts o)), spec_obs (snd (spec_step ts o)) (fst (spec_step ts o))).
Proof.
  intros Hinv Hwf. pose proof Hinv as (Hne & _ & _). destruct o as [m|c|c|a|dv dm|]; unfold dstep.
  - rewrite set_mask_repr by auto. rewrite observe_repr. f_equal. destruct m; auto.
  - unfold low_pass. rewrite (pass_repr (fun f => Qltb c f)) by auto. rewrite observe_repr. auto.
  - unfold high_pass. rewrite (pass_repr (fun f => Qltb f c)) by auto. rewrite observe_repr. auto.
  - rewrite subtract_repr. destruct (snd (spec_step ts (Subtract a))) eqn:E.
    + rewrite observe_repr. auto.
    + rewrite observe_repr. destruct a as [c|l]; simpl in *; [discriminate|].
      destruct (Nat.eqb (length l) (length ts)); simpl in *; [discriminate|auto].
  - rewrite from_dict_repr by auto. rewrite from_dict_repr by auto. rewrite ds_eqb_refl, observe_repr. auto.
  - pose proof (from_dict_repr ts false false Hinv) as H.
    change (drop_keys false false (to_dict (repr ts))) with (to_dict (repr ts)) in H.
    rewrite H. simpl. rewrite observe_repr. auto.
Qed.

Lemma drun_repr ops : forall ts, tinv ts -> forallb op_wf ops = true -> drun (repr ts) ops = spec_run ts ops.
Proof.
  induction ops as [|o r IH]; intros ts Hinv Hwf; simpl; auto.
  apply andb_true_iff in Hwf. destruct Hwf as [Ho Hr].
  rewrite dstep_repr by auto. destruct (spec_step ts o) as [ts' ok] eqn:E. simpl.
  f_equal. apply IH; auto. pose proof (tinv_step ts o Hinv) as H. rewrite E in H. auto.
Qed.

Definition case_wf (c : dcase) : bool :=
  (match c_mask c with Some m => dnodup m | None => true end) && forallb op_wf (c_ops c).

Lemma construct_invalid fs zs mask : valid_input fs zs = false -> exists e, construct fs zs mask = Err e.
Proof.
  unfold valid_input, construct. destruct (Nat.eqb (length fs) (length zs)); simpl; [|eauto].
  destruct fs as [|f0 fr]; simpl; [eauto|]. destruct (existsb (Qeq_bool f0) fr || has_dup fr); simpl; [eauto|discriminate].
Qed.

Theorem model_refines_reference c : case_wf c = true -> model_trace c = spec_trace c.
Proof.
  unfold case_wf. rewrite andb_true_iff. intros [Hm Hops]. unfold model_trace, spec_trace.
  destruct (valid_input (c_fs c) (c_zs c)) eqn:Ev.
  - destruct (construct_repr (c_fs c) (c_zs c) (c_mask c) Ev) as [Hc Hinv].
    { destruct (c_mask c); auto. }
    rewrite Hc. rewrite observe_repr, drun_repr; auto.
  - destruct (construct_invalid _ _ (c_mask c) Ev) as [e He]. rewrite He. auto.
Qed.

(* ---------- order irrelevance, partition, descending order --------------------------------------------- *)
Lemma dget_mapkeys n m j dflt : dget j (map (fun kv : Z * bool => (n - 1 - fst kv, snd kv)) m) dflt = dget (n - 1 - j) m dflt.
Proof.
  induction m as [|[k v] r IH]; simpl; auto.
  destruct (Z.eqb j (n - 1 - k)) eqn:E1, (Z.eqb (n - 1 - j) k) eqn:E2; auto.
  - apply Z.eqb_eq in E1. apply Z.eqb_neq in E2. lia.
  - apply Z.eqb_eq in E2. apply Z.eqb_neq in E1. lia.
Qed.

Lemma desc_last_lt f0 fr : desc (f0 :: fr) = true -> fr <> [] -> Qltb (last (f0 :: fr) f0) f0 = true.
Proof.
  revert f0. induction fr as [|f1 r IH]; intros f0 H Hne; [congruence|].
  simpl in H. apply andb_true_iff in H. destruct H as [H1 H2].
  destruct r as [|f2 r'].
  - simpl. auto.
  - assert (Hl : Qltb (last (f1 :: f2 :: r') f1) f1 = true) by (apply IH; auto; discriminate).
    change (last (f0 :: f1 :: f2 :: r') f0) with (last (f1 :: f2 :: r') f0).
    assert (Hd : forall d d', last (f1 :: f2 :: r') d = last (f1 :: f2 :: r') d').
    { clear. generalize (f2 :: r') f1. induction l as [|x l IHl]; intros; simpl; auto. destruct l; auto. apply (IHl x). }
    rewrite (Hd f0 f1). eapply Qltb_trans; eauto.
Qed.

Lemma asc_last_gt f0 fr : asc (f0 :: fr) = true -> fr <> [] -> Qltb f0 (last (f0 :: fr) f0) = true.
Proof.
  revert f0. induction fr as [|f1 r IH]; intros f0 H Hne; [congruence|].
  simpl in H. apply andb_true_iff in H. destruct H as [H1 H2].
  destruct r as [|f2 r'].
  - simpl. auto.
  - assert (Hl : Qltb f1 (last (f1 :: f2 :: r') f1) = true) by (apply IH; auto; discriminate).
    change (last (f0 :: f1 :: f2 :: r') f0) with (last (f1 :: f2 :: r') f0).
    assert (Hd : forall d d', last (f1 :: f2 :: r') d = last (f1 :: f2 :: r') d').
    { clear. generalize (f2 :: r') f1. induction l as [|x l IHl]; intros; simpl; auto. destruct l; auto. apply (IHl x). }
    rewrite (Hd f0 f1). eapply Qltb_trans; eauto.
Qed.

Lemma desc_app_snoc l x : desc (l ++ [x]) = desc l && match l with [] => true | _ => Qltb x (last l x) end.
Proof.
  induction l as [|a l IH]; simpl; auto.
  destruct l as [|b l']; simpl in *.
  - rewrite andb_true_r. auto.
  - rewrite IH. rewrite andb_assoc. auto.
Qed.

Lemma asc_rev_desc l : asc l = true -> desc (rev l) = true.
Proof.
  induction l as [|a l IH]; simpl; auto. intro H. rewrite desc_app_snoc.
  destruct l as [|b l'].
  - simpl. auto.
  - simpl in H. apply andb_true_iff in H. destruct H as [H1 H2]. rewrite IH by auto. simpl.
    destruct (rev l' ++ [b]) eqn:E; [destruct (rev l'); discriminate|]. rewrite <- E.
    rewrite last_last. auto.
Qed.

Lemma spec_construct_cases fs zs mask : fs <> [] ->
  spec_construct fs zs mask =
  let pts := attach 0 fs zs (match mask with Some m => m | None => [] end) in
  if Qltb (hd 0%Q fs) (last fs (hd 0%Q fs)) then rev pts else pts.
Proof. destruct fs; [congruence|]. intros _. reflexivity. Qed.

Lemma last_indep (l : list Q) d d' : l <> [] -> last l d = last l d'.
Proof. induction l as [|x l IH]; [congruence|]. intros _. destruct l; simpl; auto. apply IH. discriminate. Qed.

Lemma construct_order_irrelevant fs zs m :
  desc fs = true -> length fs = length zs -> fs <> [] ->
  spec_construct (rev fs) (rev zs) (Some (map (fun kv : Z * bool => (Z.of_nat (length fs) - 1 - fst kv, snd kv)) m))
  = spec_construct fs zs (Some m).
Proof.
  intros Hd Hlen Hne. destruct fs as [|f0 fr] eqn:Efs; [congruence|]. rewrite <- Efs in *.
  set (n := Z.of_nat (length fs)).
  assert (Hrhs : spec_construct fs zs (Some m) = attach 0 fs zs m).
  { apply spec_construct_desc. rewrite Efs. destruct fr as [|f1 r].
    - simpl. apply Qltb_irrefl.
    - apply Qltb_asym. rewrite Efs in Hd. apply desc_last_lt; auto. discriminate. }
  rewrite Hrhs.
  assert (Hatt : attach 0 (rev fs) (rev zs) (map (fun kv : Z * bool => (n - 1 - fst kv, snd kv)) m) = rev (attach 0 fs zs m)).
  { apply attach_rev; auto. intros k Hk. rewrite dget_mapkeys. f_equal. unfold n. lia. }
  assert (Hrne : rev fs <> []).
  { intro Hc. apply (f_equal (@length Q)) in Hc. rewrite rev_length, Efs in Hc. discriminate. }
  rewrite spec_construct_cases by auto. cbv zeta. rewrite Hatt.
  assert (H2 : last (rev fs) (hd 0%Q (rev fs)) = f0) by (rewrite last_rev_hd', Efs; reflexivity).
  assert (H1 : hd 0%Q (rev fs) = last fs f0) by (rewrite hd_rev_last'; apply last_indep; auto).
  rewrite H2, H1.
  destruct fr as [|f1 r].
  - rewrite Efs. simpl. rewrite Qltb_irrefl. rewrite Efs in Hlen. destruct zs as [|z [|z2 zs']]; simpl in *; try discriminate. auto.
  - assert (Hlt : Qltb (last fs f0) f0 = true) by (rewrite Efs in *; apply desc_last_lt; auto; discriminate).
    rewrite Hlt. apply rev_involutive.
Qed.

Lemma filter_partition_perm {A} (p : A -> bool) l : Permutation (filter (fun x => negb (p x)) l ++ filter p l) l.
Proof.
  induction l as [|a l IH]; simpl; auto. destruct (p a); simpl.
  - apply Permutation_sym. apply Permutation_cons_app. apply Permutation_sym. auto.
  - constructor. auto.
Qed.

Lemma views_partition ok ts :
  Permutation (o_un_f (spec_obs ok ts) ++ o_ma_f (spec_obs ok ts)) (o_all_f (spec_obs ok ts)) /\
  Permutation (o_un_z (spec_obs ok ts) ++ o_ma_z (spec_obs ok ts)) (o_all_z (spec_obs ok ts)).
Proof.
  simpl. rewrite <- !map_app. split; apply Permutation_map; apply filter_partition_perm.
Qed.

Lemma spec_construct_desc_order fs zs mask :
  length fs = length zs -> (desc fs = true \/ asc fs = true) ->
  desc (map tf (spec_construct fs zs mask)) = true.
Proof.
  intros Hlen H. unfold spec_construct. destruct fs as [|f0 fr] eqn:Efs; auto. rewrite <- Efs in *.
  set (m0 := match mask with Some m => m | None => [] end).
  destruct fr as [|f1 r].
  - rewrite Efs. simpl. rewrite Qltb_irrefl. rewrite Efs in Hlen. destruct zs as [|z [|? ?]]; simpl in *; try discriminate. auto.
  - destruct H as [H|H].
    + assert (Hlt : Qltb f0 (last fs f0) = false) by (apply Qltb_asym; rewrite Efs in *; apply desc_last_lt; auto; discriminate).
      rewrite Hlt, attach_tf; auto.
    + assert (Hlt : Qltb f0 (last fs f0) = true) by (rewrite Efs in *; apply asc_last_gt; auto; discriminate).
      rewrite Hlt, map_rev, attach_tf by auto. apply asc_rev_desc. auto.
Qed.

Lemma spec_run_tf ops : forall ts, Forall (fun ob => o_all_f ob = map tf ts) (spec_run ts ops).
Proof.
  induction ops as [|o r IH]; intro ts; simpl; auto.
  destruct (spec_step ts o) as [ts' ok] eqn:E. constructor.
  - simpl. pose proof (spec_step_tf ts o) as H. rewrite E in H. auto.
  - pose proof (spec_step_tf ts o) as H. rewrite E in H. simpl in H. rewrite <- H. apply IH.
Qed.

(* ---- masked points never reach an analysis: the unmasked views do not depend on the values stored at masked positions ---- *)
(* two value lists that agree on every unmasked position (the masked positions may hold anything) *)
Fixpoint agree_unmasked {A} (i : Z) (l1 l2 : list A) (m : dict) : Prop :=
  match l1, l2 with
  | [], [] => True
  | x :: r, y :: s => (dget i m false = false -> x = y) /\ agree_unmasked (i + 1) r s m
  | _, _ => False
  end.

Lemma unmasked_view_ignores_masked {A} (m : dict) : forall (l1 l2 : list A) i,
  agree_unmasked i l1 l2 m -> view_from i l1 m false = view_from i l2 m false.
Proof.
  induction l1 as [|x r IH]; intros [|y s] i H; simpl in *; try contradiction; auto.
  destruct H as [Hxy Hr]. destruct (dget i m false) eqn:E; simpl.
  - apply IH; exact Hr.
  - rewrite (Hxy eq_refl). f_equal. apply IH; exact Hr.
Qed.

Theorem masked_values_irrelevant (fs : list Q) (zs1 zs2 : list cplx) (m : dict) :
  agree_unmasked 0 zs1 zs2 m ->
  get_fs (mkDS fs zs1 m) (Some false) = get_fs (mkDS fs zs2 m) (Some false) /\
  get_zs (mkDS fs zs1 m) (Some false) = get_zs (mkDS fs zs2 m) (Some false).
Proof. intro H. split; [reflexivity|]. unfold get_zs. simpl. apply unmasked_view_ignores_masked; exact H. Qed.

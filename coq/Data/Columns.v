(* Data/Columns.v — executable model of the table reader of data_set.py: _detect_columns (header normalisation, ordered alias
   table, first key wins, sign marker), the cartesian branch of _extract_data (sign handling) and _split_sweeps (monotonic runs).
   No proofs here; facts are in Data/Columns_facts.v.  Checked against the implementation by tools/harness/C06.py. *)
From Coq Require Import ZArith NArith QArith List Bool.
From PV Require Import Base.Num Base.Outcome Circuit.Tree Data.ColBase gen.Aliases_gen.
Import ListNotations.
Local Open Scope N_scope.

Definition hyphen : N := 45.
Definition minus_sign : N := 8722.     (* U+2212 *)

Fixpoint starts_with (s pre : str) {struct pre} : bool :=
  match pre, s with
  | [], _ => true
  | p :: pre', c :: s' => N.eqb p c && starts_with s' pre'
  | _ :: _, [] => false
  end.

(* str.lower() on the characters the harness uses (ASCII letters; everything else is unchanged) *)
Definition lower_char (c : N) : N := if (65 <=? c) && (c <=? 90) then c + 32 else c.
Definition lower (s : str) : str := map lower_char s.
(* str.strip(): ASCII white space *)
Definition is_ws (c : N) : bool := (c =? 32) || ((9 <=? c) && (c <=? 13)) || ((28 <=? c) && (c <=? 31)) || (c =? 133) || (c =? 160).
Fixpoint lstrip (s : str) : str := match s with c :: r => if is_ws c then lstrip r else s | [] => [] end.
Definition strip (s : str) : str := rev (lstrip (rev (lstrip s))).
Definition norm (s : str) : str := strip (lower s).

Definition alt_matches (col alt : str) : bool :=
  starts_with col alt || starts_with col (hyphen :: alt) || starts_with col (minus_sign :: alt).
Definition is_negative (col : str) : bool :=
  match col with c :: _ => (c =? hyphen) || (c =? minus_sign) | [] => false end.

(* column_indices / negative_columns as an association list from kinds *)
Definition found := list (kind * (nat * bool)).
Definition has (f : found) (k : kind) : bool := existsb (fun e => kind_eqb (fst e) k) f.
Definition lookup (f : found) (k : kind) : option (nat * bool) :=
  match find (fun e => kind_eqb (fst e) k) f with Some e => Some (snd e) | None => None end.

(* the walk over the keys for one column: the first key that is not yet identified and has a matching alias *)
Fixpoint first_key (col : str) (f : found) (keys : list kind) : option kind :=
  match keys with
  | [] => None
  | k :: r => if has f k then first_key col f r
              else if existsb (alt_matches col) (aliases k) then Some k else first_key col f r
  end.

Fixpoint detect_loop (cols : list str) (i : nat) (f : found) : found :=
  match cols with
  | [] => f
  | c :: r => let col := norm c in
              match first_key col f key_order with
              | Some k => detect_loop r (S i) (f ++ [(k, (i, is_negative col))])
              | None => detect_loop r (S i) f
              end
  end.

Definition detect_columns (cols : list str) : outcome found :=
  let f := detect_loop cols 0 [] in
  if Nat.ltb (length f) 3 then Err EValue
  else if negb (has f KFreq) then Err EKey
  else Ok f.

(* ---- _extract_data, cartesian or polar choice and signs; cells are exact rationals ------------------------------------ *)
Inductive extracted :=
  | Cart (rows : list (Q * Q * Q))         (* frequency, real, imaginary *)
  | Polar (rows : list (Q * Q * Q)).       (* frequency, magnitude, phase after the sign flip (degrees or radians as given) *)

Definition cell (row : list Q) (i : nat) : Q := nth i row 0%Q.
Definition sgn (neg : bool) (q : Q) : Q := if neg then Qopp q else q.

Definition extract_data (f : found) (rows : list (list Q)) : outcome extracted :=
  match lookup f KFreq with
  | None => Crash CKeyMissing
  | Some (fi, _) =>
    match rows with
    | [] => Err EValue
    | _ =>
      match lookup f KReal, lookup f KImag with
      | Some (ri, rn), Some (ii, inn) =>
          Ok (Cart (map (fun row => (cell row fi, sgn rn (cell row ri), sgn inn (cell row ii))) rows))
      | _, _ =>
        match lookup f KMag, lookup f KPhase with
        | Some (mi, _), Some (pi_, pn) =>
            Ok (Polar (map (fun row => (cell row fi, cell row mi, sgn pn (cell row pi_))) rows))
        | _, _ => Err EUnsupported
        end
      end
    end
  end.

(* ---- _split_sweeps: lengths of the monotonic runs ------------------------------------------------------------------------ *)
Definition qlt (a b : Q) : bool := Qltb a b.

(* length of the first run of [x :: rest] in direction [dec]; None = two equal consecutive frequencies *)
Fixpoint run_length (dec : bool) (x : Q) (rest : list Q) : option nat :=
  match rest with
  | [] => Some 1%nat
  | y :: r => if (if dec then qlt y x else qlt x y) then option_map S (run_length dec y r)
              else if (if dec then qlt x y else qlt y x) then Some 1%nat
              else None
  end.

Fixpoint split_fuel (fuel : nat) (dec : bool) (fs : list Q) : outcome (list nat) :=
  match fuel with
  | O => match fs with [] => Ok [] | _ => Crash COutOfFuel end
  | S fuel' =>
    match fs with
    | [] => Ok []
    | x :: rest =>
      match run_length dec x rest with
      | None => Err EValue
      | Some n => match split_fuel fuel' dec (skipn n fs) with
                  | Ok l => Ok (n :: l)
                  | e => e
                  end
      end
    end
  end.

Definition split_sweeps (fs : list Q) : outcome (list nat) :=
  match fs with
  | [] => Crash CIndex                     (* frequency[0] *)
  | [x] => Ok [1%nat]
  | x :: y :: _ => split_fuel (length fs) (qlt y x) fs
  end.

(* Data/DataSet.v — executable model of pyimpspec.data.data_set.DataSet (constructor, set_mask,
   get_mask, the three views, low_pass, high_pass, subtract_impedances, to_dict, _parse/from_dict,
   duplicate).  Frequencies and impedance parts are exact rationals (every double is one); only
   comparisons, copying and subtraction occur.  Python dicts are association lists in insertion
   order.  Model only; facts are in DataSet_facts.v. *)
From Coq Require Import ZArith QArith Bool List.
From PV Require Import Base.Num Base.Outcome.
Import ListNotations.

Definition cplx := (Q * Q)%type.
Definition dict := list (Z * bool).

Fixpoint dget (k : Z) (d : dict) (dflt : bool) : bool :=
  match d with [] => dflt | (k', v) :: r => if Z.eqb k k' then v else dget k r dflt end.
Fixpoint dhas (k : Z) (d : dict) : bool :=
  match d with [] => false | (k', _) :: r => Z.eqb k k' || dhas k r end.
(* d[k] = v : replace in place, or append a new key *)
Fixpoint dset (k : Z) (v : bool) (d : dict) : dict :=
  match d with
  | [] => [(k, v)]
  | (k', v') :: r => if Z.eqb k k' then (k', v) :: r else (k', v') :: dset k v r
  end.
Definition dupdate (d m : dict) : dict := fold_left (fun acc kv => dset (fst kv) (snd kv) acc) m d.

Record ds := mkDS { dfs : list Q; dzs : list cplx; dmask : dict }.

Definition npoints (d : ds) : Z := Z.of_nat (length (dfs d)).

Definition init_mask (n : nat) : dict := map (fun i => (Z.of_nat i, false)) (seq 0 n).

(* set_mask: empty dict clears; otherwise copy, drop out-of-range keys, update *)
Definition set_mask (d : ds) (m : dict) : ds :=
  let n := npoints d in
  match m with
  | [] => mkDS (dfs d) (dzs d) (dupdate (dmask d) (init_mask (length (dfs d))))
  | _ => mkDS (dfs d) (dzs d)
              (dupdate (dmask d) (filter (fun kv => negb ((fst kv <? 0)%Z || (n <=? fst kv)%Z)) m))
  end.

Fixpoint has_dup (l : list Q) : bool :=
  match l with [] => false | x :: r => existsb (Qeq_bool x) r || has_dup r end.

(* the constructor's mask handling when the input is ascending:
     mask = {frequencies.size - 1 - i: flag for i, flag in mask.items()}      (a new dictionary) *)
Definition reverse_mask (n : Z) (m : dict) : dict :=
  fold_left (fun acc kv => dset (n - 1 - fst kv)%Z (snd kv) acc) m [].

(* __init__(frequencies, impedances, mask): returns the data set and the caller's dictionary afterwards *)
Definition construct (fs : list Q) (zs : list cplx) (mask : option dict) : outcome (ds * option dict) :=
  if negb (Nat.eqb (length fs) (length zs)) then Err EValue
  else match fs with
  | [] => Err EValue
  | f0 :: _ =>
      if has_dup fs then Err EValue
      else
        let m0 := match mask with Some m => m | None => [] end in
        let n := Z.of_nat (length fs) in
        let asc := Qltb f0 (last fs f0) in
        let fs' := if asc then rev fs else fs in
        let zs' := if asc then rev zs else zs in
        let m1 := if asc then (match m0 with [] => m0 | _ => reverse_mask n m0 end) else m0 in
        Ok (set_mask (mkDS fs' zs' (init_mask (length fs))) m1, mask)
  end.

(* views: masked = None | Some false | Some true;  `self._mask.get(i, False) == masked` *)
Fixpoint view_from {A} (i : Z) (l : list A) (m : dict) (flag : bool) : list A :=
  match l with
  | [] => []
  | x :: r => if Bool.eqb (dget i m false) flag then x :: view_from (i + 1) r m flag else view_from (i + 1) r m flag
  end.
Definition get_fs (d : ds) (masked : option bool) : list Q :=
  match masked with None => dfs d | Some b => view_from 0 (dfs d) (dmask d) b end.
Definition get_zs (d : ds) (masked : option bool) : list cplx :=
  match masked with None => dzs d | Some b => view_from 0 (dzs d) (dmask d) b end.

(* low_pass / high_pass: mask = get_mask(); for i, f in enumerate(all f): if f > cutoff: mask[i] = True; set_mask(mask) *)
Fixpoint pass_loop (cmp : Q -> bool) (i : Z) (fs : list Q) (m : dict) : dict :=
  match fs with [] => m | f :: r => pass_loop cmp (i + 1) r (if cmp f then dset i true m else m) end.
Definition low_pass (d : ds) (c : Q) : ds := set_mask d (pass_loop (fun f => Qltb c f) 0 (dfs d) (dmask d)).
Definition high_pass (d : ds) (c : Q) : ds := set_mask d (pass_loop (fun f => Qltb f c) 0 (dfs d) (dmask d)).

Definition csub (a b : cplx) : cplx := (Qred (fst a - fst b), Qred (snd a - snd b)).
(* subtract_impedances: a scalar (one-element array broadcasts) or one value per point *)
Inductive subarg := SubScalar (c : cplx) | SubVector (l : list cplx).
Definition subtract (d : ds) (a : subarg) : outcome ds :=
  match a with
  | SubScalar c => Ok (mkDS (dfs d) (map (fun z => csub z c) (dzs d)) (dmask d))
  | SubVector l =>
      if Nat.eqb (length l) (length (dzs d)) then Ok (mkDS (dfs d) (map (fun zz => csub (fst zz) (snd zz)) (combine (dzs d) l)) (dmask d))
      else Err EValue          (* numpy broadcasting error is a ValueError *)
  end.

(* ---- dictionaries (to_dict / from_dict) --------------------------------------------------------- *)
Record jdict := mkJ { jversion : option Z; jmask : option dict; jfs : list Q;
                      jre : option (list Q); jim : option (list Q) }.

Definition to_dict (d : ds) : jdict :=
  mkJ (Some 2%Z) (Some (dmask d)) (dfs d) (Some (map fst (dzs d))) (Some (map snd (dzs d))).

(* from_dict(dictionary) = cls( **_parse(dictionary)): returns the data set and the caller's dictionary afterwards.
   _parse works on a copy, pops "version" with a default and checks it (only version 2 is generated here). *)
Definition from_dict (j : jdict) : outcome ds * jdict :=
  let version := match jversion j with Some v => v | None => 2%Z end in
  if (2 <? version)%Z then (Err EValue, j)
  else if negb ((version =? 1)%Z || (version =? 2)%Z) then (Err EValue, j)
  else match jre j, jim j with
  | Some re, Some im =>
      (* zip(real, imaginary) truncates to the shorter list *)
      (match construct (jfs j) (combine re im) (Some (match jmask j with Some m => m | None => [] end)) with
       | Ok (d, _) => Ok d | Err e => Err e | Crash c => Crash c end, j)
  | _, _ => (Crash CKeyMissing, j)
  end.

(* ---- operations and observations -------------------------------------------------------------------- *)
Inductive dop :=
  | SetMask (m : dict) | LowPass (c : Q) | HighPass (c : Q) | Subtract (a : subarg)
  | RoundTrip (drop_version drop_mask : bool)      (* to_dict -> JSON -> drop optional keys -> from_dict twice *)
  | Duplicate.

Record dobs := mkDO {
  o_ok : bool;                 (* the call returned normally *)
  o_all_f : list Q; o_all_z : list cplx;
  o_un_f : list Q; o_un_z : list cplx;      (* masked=False *)
  o_ma_f : list Q; o_ma_z : list cplx;      (* masked=True *)
  o_mask : dict;                                (* get_mask() *)
  o_second_same : bool                          (* RoundTrip: the second import succeeded and gave the same views *)
}.

Definition observe (ok second : bool) (d : ds) : dobs :=
  mkDO ok (get_fs d None) (get_zs d None) (get_fs d (Some false)) (get_zs d (Some false))
       (get_fs d (Some true)) (get_zs d (Some true)) (dmask d) second.

Definition drop_keys (dv dm : bool) (j : jdict) : jdict :=
  mkJ (if dv then None else jversion j) (if dm then None else jmask j) (jfs j) (jre j) (jim j).

Definition qlist_eqb (a b : list Q) : bool :=
  (fix go a b := match a, b with [] , [] => true | x :: a', y :: b' => Qeq_bool x y && go a' b' | _, _ => false end) a b.
Definition cplx_eqb (a b : cplx) : bool := Qeq_bool (fst a) (fst b) && Qeq_bool (snd a) (snd b).
Definition clist_eqb (a b : list cplx) : bool :=
  (fix go a b := match a, b with [] , [] => true | x :: a', y :: b' => cplx_eqb x y && go a' b' | _, _ => false end) a b.
Definition dict_eqb (a b : dict) : bool :=
  (fix go a b := match a, b with [] , [] => true
                 | (k, v) :: a', (k', v') :: b' => Z.eqb k k' && Bool.eqb v v' && go a' b' | _, _ => false end) a b.
Definition ds_eqb (a b : ds) : bool :=
  qlist_eqb (dfs a) (dfs b) && clist_eqb (dzs a) (dzs b) && dict_eqb (dmask a) (dmask b).

Definition dstep (d : ds) (o : dop) : ds * dobs :=
  match o with
  | SetMask m => let d' := set_mask d m in (d', observe true true d')
  | LowPass c => let d' := low_pass d c in (d', observe true true d')
  | HighPass c => let d' := high_pass d c in (d', observe true true d')
  | Subtract a => match subtract d a with Ok d' => (d', observe true true d') | _ => (d, observe false true d) end
  | RoundTrip dv dm =>
      let j := drop_keys dv dm (to_dict d) in
      let '(r1, j1) := from_dict j in
      let '(r2, _) := from_dict j1 in
      match r1 with
      | Ok d1 => (d1, observe true (match r2 with Ok d2 => ds_eqb d1 d2 | _ => false end) d1)
      | _ => (d, observe false false d)
      end
  | Duplicate =>
      match fst (from_dict (to_dict d)) with Ok d' => (d', observe true true d') | _ => (d, observe false true d) end
  end.

Fixpoint drun (d : ds) (ops : list dop) : list dobs :=
  match ops with [] => [] | o :: r => let '(d', ob) := dstep d o in ob :: drun d' r end.

Definition dobs_eqb (a b : dobs) : bool :=
  Bool.eqb (o_ok a) (o_ok b) && qlist_eqb (o_all_f a) (o_all_f b) && clist_eqb (o_all_z a) (o_all_z b)
  && qlist_eqb (o_un_f a) (o_un_f b) && clist_eqb (o_un_z a) (o_un_z b)
  && qlist_eqb (o_ma_f a) (o_ma_f b) && clist_eqb (o_ma_z a) (o_ma_z b)
  && dict_eqb (o_mask a) (o_mask b) && Bool.eqb (o_second_same a) (o_second_same b).

Fixpoint obs_list_eqb (a b : list dobs) : bool :=
  match a, b with [] , [] => true | x :: a', y :: b' => dobs_eqb x y && obs_list_eqb a' b' | _, _ => false end.

(* a whole case: constructor arguments, then operations *)
Record dcase := mkCase { c_fs : list Q; c_zs : list cplx; c_mask : option dict; c_ops : list dop }.
(* observed: constructor outcome (ok?), caller's mask dict afterwards, first observation, then one per op *)
Record dtrace := mkTr { t_ok : bool; t_caller_mask : option dict; t_first : option dobs; t_steps : list dobs }.

Definition model_trace (c : dcase) : dtrace :=
  match construct (c_fs c) (c_zs c) (c_mask c) with
  | Ok (d, cm) => mkTr true cm (Some (observe true true d)) (drun d (c_ops c))
  | _ => mkTr false (c_mask c) None []
  end.

Definition odict_eqb (a b : option dict) : bool :=
  match a, b with None, None => true | Some x, Some y => dict_eqb x y | _, _ => false end.

Definition trace_eqb (a b : dtrace) : bool :=
  Bool.eqb (t_ok a) (t_ok b) && odict_eqb (t_caller_mask a) (t_caller_mask b) &&
  match t_first a, t_first b with None, None => true | Some x, Some y => dobs_eqb x y | _, _ => false end &&
  obs_list_eqb (t_steps a) (t_steps b).

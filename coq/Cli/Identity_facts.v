(* Cli/Identity_facts.v — facts about the specifier parser model: it never crashes, a specifier without a colon denotes itself,
   and writing keyword arguments after an identifier and parsing the result gives them back. *)
From Coq Require Import ZArith NArith List Bool Lia.
From PV Require Import Base.Outcome Circuit.Tree Cli.Identity.
Import ListNotations.
Local Open Scope N_scope.

Definition absent (c : N) (s : str) : Prop := forall x, In x s -> x <> c.

Lemma rfind_from_absent c s : forall i best, absent c s -> rfind_from c s i best = best.
Proof.
  induction s as [|x r IH]; intros i best H; simpl; [reflexivity|].
  assert (E : (x =? c) = false) by (apply N.eqb_neq; apply H; left; reflexivity). rewrite E.
  apply IH. intros y Hy. apply H. right. exact Hy.
Qed.

Lemma rfind_from_bounds c s : forall i best, (best < i)%Z -> (rfind_from c s i best < i + Z.of_nat (length s))%Z.
Proof.
  induction s as [|x r IH]; intros i best H; simpl rfind_from; simpl length; [lia|].
  destruct (x =? c).
  - specialize (IH (i + 1)%Z i). lia.
  - specialize (IH (i + 1)%Z best). lia.
Qed.

Lemma rfind_from_app c a : forall b i best, rfind_from c (a ++ b) i best = rfind_from c b (i + Z.of_nat (length a))%Z (rfind_from c a i best).
Proof.
  induction a as [|x r IH]; intros b i best; simpl app; simpl rfind_from; simpl length.
  - f_equal. lia.
  - rewrite IH. f_equal. lia.
Qed.

Lemma rfind_app_absent c a b : absent c b -> rfind c (a ++ b) = rfind c a.
Proof. intro H. unfold rfind. rewrite rfind_from_app. apply rfind_from_absent. exact H. Qed.

Lemma rfind_lt_length c a : (rfind c a < Z.of_nat (length a))%Z.
Proof. unfold rfind. pose proof (rfind_from_bounds c a 0 (-1)%Z). lia. Qed.

Lemma rfind_sep c a b : absent c b -> rfind c (a ++ c :: b) = Z.of_nat (length a).
Proof.
  intro H. unfold rfind. rewrite rfind_from_app. simpl rfind_from. rewrite N.eqb_refl.
  rewrite rfind_from_absent by exact H. lia.
Qed.

(* a specifier without a colon denotes itself and carries no keyword arguments *)
Theorem no_colon_is_identity s : absent colon s -> parse_identity s = Ok (s, []).
Proof.
  intro H. unfold parse_identity. unfold rfind at 1. rewrite rfind_from_absent by exact H. reflexivity.
Qed.

(* the parser either returns or raises ValueError / KeyError *)
Lemma parse_args_total args : forall d, (exists r, parse_args args d = Ok r) \/ parse_args args d = Err EValue \/ parse_args args d = Err EKey.
Proof.
  induction args as [|a r IH]; intro d; simpl; [left; eauto|].
  destruct (split_on equals (strip a)) as [|k [|v [|w t]]]; auto.
  destruct (key_index k) as [n|]; auto.
  destruct (if key_is_int n then int_ok v else float_ok v); auto.
Qed.

Theorem parse_identity_total s :
  (exists r, parse_identity s = Ok r) \/ parse_identity s = Err EValue \/ parse_identity s = Err EKey.
Proof.
  unfold parse_identity. destruct ((0 <=? rfind colon s)%Z && _); [|left; eauto].
  destruct (parse_args_total (split_on comma (skipn (S (Z.to_nat (rfind colon s))) s)) []) as [[r H]|[H|H]]; rewrite H; eauto.
Qed.

(* ---- writing keyword arguments and reading them back ------------------------------------------------------------------------- *)
Definition key_name (k : nat) : str := nth k key_names [].
Definition render1 (kv : nat * str) : str := key_name (fst kv) ++ equals :: snd kv.
Fixpoint render (kvs : list (nat * str)) : str :=
  match kvs with [] => [] | [kv] => render1 kv | kv :: r => render1 kv ++ comma :: render r end.

(* a value as one would write it: accepted by float()/int() for its key, no separators, brackets or surrounding white space *)
Definition clean (kv : nat * str) : Prop :=
  (fst kv < 6)%nat /\ absent comma (snd kv) /\ absent equals (snd kv) /\ absent colon (snd kv)
  /\ absent 125 (snd kv) /\ absent 93 (snd kv) /\ absent 41 (snd kv)
  /\ strip (render1 kv) = render1 kv
  /\ (if key_is_int (fst kv) then int_ok (snd kv) else float_ok (snd kv)) = true.

Lemma split_on_absent c s : absent c s -> split_on c s = [s].
Proof.
  induction s as [|x r IH]; intro H; simpl; [reflexivity|].
  assert (E : (x =? c) = false) by (apply N.eqb_neq; apply H; left; reflexivity). rewrite E.
  rewrite IH; [reflexivity|]. intros y Hy. apply H. right. exact Hy.
Qed.

Lemma split_on_sep c a b : absent c a -> split_on c (a ++ c :: b) = a :: split_on c b.
Proof.
  induction a as [|x r IH]; intro H; simpl.
  - rewrite N.eqb_refl. reflexivity.
  - assert (E : (x =? c) = false) by (apply N.eqb_neq; apply H; left; reflexivity). rewrite E.
    rewrite IH; [reflexivity|]. intros y Hy. apply H. right. exact Hy.
Qed.

Lemma absent_app c a b : absent c a -> absent c b -> absent c (a ++ b).
Proof. intros Ha Hb x Hx. apply in_app_or in Hx. destruct Hx; auto. Qed.
Lemma absent_cons c x a : x <> c -> absent c a -> absent c (x :: a).
Proof. intros Hx Ha y [Hy|Hy]; [subst; auto|auto]. Qed.

Lemma key_name_absent k c : (k < 6)%nat -> In c [comma; equals; colon; 125; 93; 41] -> absent c (key_name k).
Proof.
  intros Hk Hc x Hx. unfold key_name, key_names in Hx.
  do 6 (destruct k as [|k]; [simpl in Hx; simpl in Hc; intuition (subst; discriminate)|]). lia.
Qed.

Lemma key_index_name k : (k < 6)%nat -> key_index (key_name k) = Some k.
Proof. intro Hk. do 6 (destruct k as [|k]; [reflexivity|]). lia. Qed.

Lemma render1_absent kv c : clean kv -> In c [comma; colon; 125; 93; 41] -> absent c (render1 kv).
Proof.
  intros (Hk & H1 & H2 & H3 & H4 & H5 & H6 & _) Hc. unfold render1. apply absent_app.
  - apply key_name_absent; auto. simpl in *. intuition.
  - apply absent_cons.
    + simpl in Hc. unfold comma, colon, equals in *. intuition (subst; discriminate).
    + simpl in Hc. intuition (subst; auto).
Qed.

Lemma render_absent kvs c : Forall clean kvs -> In c [colon; 125; 93; 41] -> absent c (render kvs).
Proof.
  intros H Hc. induction H as [|kv r Hkv Hr IH]; [intros x []|].
  assert (Hc' : In c [comma; colon; 125; 93; 41]) by (simpl in *; intuition).
  destruct r as [|kv' r']; [apply render1_absent; auto|].
  change (render (kv :: kv' :: r')) with (render1 kv ++ comma :: render (kv' :: r')).
  apply absent_app; [apply render1_absent; auto|]. apply absent_cons; [|exact IH].
  simpl in Hc. unfold comma, colon in *. intuition (subst; discriminate).
Qed.

Lemma split_render kvs : Forall clean kvs -> kvs <> [] -> split_on comma (render kvs) = map render1 kvs.
Proof.
  intros H Hne. induction H as [|kv r Hkv Hr IH]; [congruence|].
  destruct r as [|kv' r'].
  - simpl. apply split_on_absent. apply render1_absent; auto. simpl; auto.
  - change (render (kv :: kv' :: r')) with (render1 kv ++ comma :: render (kv' :: r')).
    rewrite split_on_sep by (apply render1_absent; auto; simpl; auto). rewrite IH by congruence. reflexivity.
Qed.

Definition keys_of (d : list (nat * str)) : list nat := map fst d.

Lemma dict_set_fresh d k v : ~ In k (keys_of d) -> dict_set d k v = d ++ [(k, v)].
Proof.
  induction d as [|[k' v'] r IH]; intro H; simpl; [reflexivity|].
  destruct (Nat.eqb k k') eqn:E; [apply Nat.eqb_eq in E; subst; exfalso; apply H; left; reflexivity|].
  rewrite IH; [reflexivity|]. intro Hc. apply H. right. exact Hc.
Qed.

Lemma parse_args_render kvs : forall d,
  Forall clean kvs -> NoDup (keys_of d ++ keys_of kvs) -> parse_args (map render1 kvs) d = Ok (d ++ kvs).
Proof.
  induction kvs as [|[k v] r IH]; intros d Hc Hnd; simpl; [rewrite app_nil_r; reflexivity|].
  inversion Hc as [|? ? Hkv Hr]; subst. pose proof Hkv as (Hk & H1 & H2 & H3 & H4 & H5 & H6 & Hs & Hok). simpl in *.
  rewrite Hs. unfold render1. simpl fst; simpl snd.
  rewrite split_on_sep by (apply key_name_absent; auto; simpl; auto).
  rewrite (split_on_absent equals v H2). rewrite key_index_name by exact Hk. rewrite Hok.
  assert (Hfresh : ~ In k (keys_of d)).
  { intro Hin. apply NoDup_remove_2 in Hnd. apply Hnd. apply in_or_app. left. exact Hin. }
  rewrite dict_set_fresh by exact Hfresh. rewrite IH; auto.
  - rewrite <- app_assoc. reflexivity.
  - unfold keys_of in *. rewrite map_app. simpl. rewrite <- app_assoc. simpl.
    apply NoDup_remove_1 in Hnd as Hnd1. 
    assert (Hperm : NoDup (map fst d ++ k :: map fst r)) by exact Hnd. exact Hperm.
Qed.

(* C19: "<ID:key=value,...>" denotes ID with exactly those keyword arguments *)
Theorem specifier_round_trip (id : str) (kvs : list (nat * str)) :
  absent colon id -> Forall clean kvs -> NoDup (keys_of kvs) -> kvs <> [] ->
  parse_identity (id ++ colon :: render kvs) = Ok (id, kvs).
Proof.
  intros Hid Hc Hnd Hne. unfold parse_identity.
  rewrite (rfind_sep colon id (render kvs)) by (apply render_absent; auto; simpl; auto).
  assert (Hb : forall c, In c [125; 93; 41] -> (rfind c (id ++ colon :: render kvs) < Z.of_nat (length id))%Z).
  { intros c Hcin. replace (id ++ colon :: render kvs) with (id ++ (colon :: render kvs)) by reflexivity.
    rewrite rfind_app_absent; [apply rfind_lt_length|]. apply absent_cons.
    - simpl in Hcin. unfold colon. intuition (subst; discriminate).
    - apply render_absent; auto. simpl in *. intuition. }
  pose proof (Hb 125 (or_introl eq_refl)) as B1. pose proof (Hb 93 (or_intror (or_introl eq_refl))) as B2.
  pose proof (Hb 41 (or_intror (or_intror (or_introl eq_refl)))) as B3.
  assert (E1 : (0 <=? Z.of_nat (length id))%Z = true) by (apply Z.leb_le; lia). rewrite E1.
  assert (E2 : (Z.max (rfind 125 (id ++ colon :: render kvs)) (Z.max (rfind 93 (id ++ colon :: render kvs)) (rfind 41 (id ++ colon :: render kvs))) <? Z.of_nat (length id))%Z = true)
    by (apply Z.ltb_lt; lia).
  rewrite E2. simpl andb. cbv iota. rewrite Nat2Z.id.
  replace (skipn (S (length id)) (id ++ colon :: render kvs)) with (render kvs).
  - rewrite split_render by auto. rewrite parse_args_render by (simpl; auto). simpl.
    rewrite firstn_app, firstn_all, Nat.sub_diag. simpl. rewrite app_nil_r. reflexivity.
  - replace (S (length id)) with (length (id ++ [colon])) by (rewrite app_length; simpl; lia).
    replace (id ++ colon :: render kvs) with ((id ++ [colon]) ++ render kvs) by (rewrite <- app_assoc; reflexivity).
    clear. induction (id ++ [colon]); simpl; auto.
Qed.

(* the hypotheses are satisfiable: "CIRCUIT_1:noise=0.5,seed=42" *)
Example specifier_example :
  parse_identity ([67;73;82;67;85;73;84;95;49] ++ colon :: render [(0%nat, [48;46;53]); (4%nat, [52;50])])
  = Ok ([67;73;82;67;85;73;84;95;49], [(0%nat, [48;46;53]); (4%nat, [52;50])]).
Proof. vm_compute. reflexivity. Qed.

(* Cli/Identity.v — executable model of cli/utility.py:_parse_identity, the parser of mock-data specifiers
   "<ID:key=value,...>" (the angle brackets are removed by the caller).  Values are returned as written; whether float()/int()
   accepts them is modelled for decimal literals (sign, digits with single underscores, point, exponent, inf/nan). *)
From Coq Require Import ZArith NArith List Bool.
From PV Require Import Base.Outcome Circuit.Tree.
Import ListNotations.
Local Open Scope N_scope.

Definition colon : N := 58.
Definition comma : N := 44.
Definition equals : N := 61.

(* str.rfind(c): index of the last occurrence, or -1 *)
Fixpoint rfind_from (c : N) (s : str) (i : Z) (best : Z) : Z :=
  match s with [] => best | x :: r => rfind_from c r (i + 1)%Z (if x =? c then i else best) end.
Definition rfind (c : N) (s : str) : Z := rfind_from c s 0%Z (-1)%Z.

(* str.split(c) for a one-character separator *)
Fixpoint split_on (c : N) (s : str) : list str :=
  match s with
  | [] => [[]]
  | x :: r => if x =? c then [] :: split_on c r
              else match split_on c r with h :: t => (x :: h) :: t | [] => [[x]] end
  end.

Definition is_ws (c : N) : bool := (c =? 32) || ((9 <=? c) && (c <=? 13)) || ((28 <=? c) && (c <=? 31)) || (c =? 133) || (c =? 160).
Fixpoint lstrip (s : str) : str := match s with c :: r => if is_ws c then lstrip r else s | [] => [] end.
Definition strip (s : str) : str := rev (lstrip (rev (lstrip s))).

(* the keys of kwarg_types, in the order of the source: noise, num_per_decade, log_max_f, log_min_f, seed, drift *)
Definition key_names : list str :=
  [[110;111;105;115;101]; [110;117;109;95;112;101;114;95;100;101;99;97;100;101]; [108;111;103;95;109;97;120;95;102];
   [108;111;103;95;109;105;110;95;102]; [115;101;101;100]; [100;114;105;102;116]].
Definition key_is_int (k : nat) : bool := match k with 1%nat | 4%nat => true | _ => false end.

Fixpoint key_index_from (i : nat) (names : list str) (s : str) : option nat :=
  match names with [] => None | n :: r => if str_eqb n s then Some i else key_index_from (S i) r s end.
Definition key_index (s : str) : option nat := key_index_from 0 key_names s.

(* decimal literals *)
Definition is_digit (c : N) : bool := (48 <=? c) && (c <=? 57).
(* digit ('_'? digit)*  — returns the rest after the longest such group, None if it does not start with a digit *)
Fixpoint digits_rest (s : str) (fuel : nat) : option str :=
  match fuel with O => None | S fuel' =>
    match s with
    | d :: r => if is_digit d then
                  match r with
                  | u :: d2 :: r2 => if (u =? 95) && is_digit d2 then digits_rest (d2 :: r2) fuel'
                                     else if is_digit u then digits_rest r fuel' else Some r
                  | [u] => if is_digit u then Some [] else Some r
                  | [] => Some []
                  end
                else None
    | [] => None
    end
  end.
Definition skip_sign (s : str) : str := match s with c :: r => if (c =? 43) || (c =? 45) then r else s | [] => [] end.
Definition lower_char (c : N) : N := if (65 <=? c) && (c <=? 90) then c + 32 else c.

Definition int_ok (v : str) : bool :=
  let s := skip_sign (strip v) in
  match digits_rest s (S (length s)) with Some [] => true | _ => false end.

Definition exponent_ok (s : str) : bool :=        (* what follows the mantissa: nothing or [eE] sign? digits *)
  match s with
  | [] => true
  | c :: r => if (c =? 101) || (c =? 69) then
                let r' := skip_sign r in match digits_rest r' (S (length r')) with Some [] => true | _ => false end
              else false
  end.

Definition float_ok (v : str) : bool :=
  let s := skip_sign (strip v) in
  let low := map lower_char s in
  if str_eqb low [105;110;102] || str_eqb low [110;97;110] || str_eqb low [105;110;102;105;110;105;116;121] then true else
  match s with
  | c :: r =>
      if c =? 46 then                                     (* .digits *)
        match digits_rest r (S (length r)) with Some rest => exponent_ok rest | None => false end
      else
        match digits_rest s (S (length s)) with
        | Some (p :: rest) => if p =? 46 then
                                match rest with
                                | d :: _ => if is_digit d then match digits_rest rest (S (length rest)) with Some rest' => exponent_ok rest' | None => false end
                                            else exponent_ok rest
                                | [] => true
                                end
                              else exponent_ok (p :: rest)
        | Some [] => true
        | None => false
        end
  | [] => false
  end.

(* kwargs as an insertion-ordered dictionary: a later value for the same key replaces the earlier one in place *)
Fixpoint dict_set (d : list (nat * str)) (k : nat) (v : str) : list (nat * str) :=
  match d with
  | [] => [(k, v)]
  | (k', v') :: r => if Nat.eqb k k' then (k, v) :: r else (k', v') :: dict_set r k v
  end.

Fixpoint parse_args (args : list str) (d : list (nat * str)) : outcome (list (nat * str)) :=
  match args with
  | [] => Ok d
  | a :: r =>
      match split_on equals (strip a) with
      | [key; value] =>
          match key_index key with
          | Some k => if (if key_is_int k then int_ok value else float_ok value) then parse_args r (dict_set d k value) else Err EValue
          | None => Err EKey
          end
      | _ => Err EValue                                   (* key, value = arg.split("=") *)
      end
  end.

Definition parse_identity (s : str) : outcome (str * list (nat * str)) :=
  let i := rfind colon s in
  let b := Z.max (rfind 125 s) (Z.max (rfind 93 s) (rfind 41 s)) in
  if (0 <=? i)%Z && (b <? i)%Z then
    match parse_args (split_on comma (skipn (S (Z.to_nat i)) s)) [] with
    | Ok d => Ok (firstn (Z.to_nat i) s, d)
    | Err e => Err e
    | Crash c => Crash c
    end
  else Ok (s, []).

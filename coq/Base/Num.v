(* Base/Num.v — Python floats as exact extended rationals.
   Every finite IEEE double is a dyadic rational; the harness sends it as [n # d].
   Comparison semantics are Python's: NaN compares false with everything. *)
From Coq Require Import ZArith QArith Bool List Lia Lqa.
Import ListNotations.
Open Scope Q_scope.

Inductive xnum := Fin (q : Q) | PInf | NInf | NaN.

Definition Qltb (a b : Q) : bool := negb (Qle_bool b a).

Definition xltb (a b : xnum) : bool :=
  match a, b with
  | NaN, _ | _, NaN => false
  | Fin x, Fin y => Qltb x y
  | NInf, NInf => false
  | NInf, _ => true
  | _, NInf => false
  | PInf, _ => false
  | Fin _, PInf => true
  end.

Definition xeqb (a b : xnum) : bool :=
  match a, b with
  | Fin x, Fin y => Qeq_bool x y
  | PInf, PInf | NInf, NInf => true
  | _, _ => false
  end.

Definition xleb (a b : xnum) : bool := xltb a b || xeqb a b.
Definition xgtb a b := xltb b a.
Definition xgeb a b := xleb b a.

Definition is_nan (a : xnum) : bool := match a with NaN => true | _ => false end.
Definition is_inf (a : xnum) : bool := match a with PInf | NInf => true | _ => false end.

(* Observational identity of two floats: same class and equal value (as Python's
   [==] on non-NaN, plus NaN = NaN so that snapshots can be compared). *)
Definition xsame (a b : xnum) : bool :=
  match a, b with NaN, NaN => true | _, _ => xeqb a b end.

Lemma Qltb_lt a b : Qltb a b = true <-> a < b.
Proof.
  unfold Qltb. rewrite negb_true_iff. split; intro H.
  - apply Qnot_le_lt. intro Hc. apply Qle_bool_iff in Hc. congruence.
  - destruct (Qle_bool b a) eqn:E; auto. exfalso. apply Qle_bool_iff in E. lra.
Qed.

Lemma Qltb_irrefl a : Qltb a a = false.
Proof. destruct (Qltb a a) eqn:E; auto. apply Qltb_lt in E. lra. Qed.

Lemma Qltb_trans a b c : Qltb a b = true -> Qltb b c = true -> Qltb a c = true.
Proof. rewrite !Qltb_lt. lra. Qed.

Lemma xltb_trans a b c : xltb a b = true -> xltb b c = true -> xltb a c = true.
Proof.
  destruct a, b, c; simpl; try congruence; auto. apply Qltb_trans.
Qed.

Lemma xltb_irrefl a : xltb a a = false.
Proof. destruct a; simpl; auto using Qltb_irrefl. Qed.

Lemma xsame_refl a : xsame a a = true.
Proof. destruct a; simpl; auto. apply Qeq_bool_iff. reflexivity. Qed.

Lemma xeqb_sym a b : xeqb a b = xeqb b a.
Proof.
  destruct a, b; simpl; auto.
  destruct (Qeq_bool q q0) eqn:E1, (Qeq_bool q0 q) eqn:E2; auto.
  - apply Qeq_bool_iff in E1. symmetry in E1. apply Qeq_bool_iff in E1. congruence.
  - apply Qeq_bool_iff in E2. symmetry in E2. apply Qeq_bool_iff in E2. congruence.
Qed.

Lemma xsame_sym a b : xsame a b = xsame b a.
Proof. destruct a, b; simpl; auto. apply (xeqb_sym (Fin q) (Fin q0)). Qed.

Lemma xsame_trans a b c : xsame a b = true -> xsame b c = true -> xsame a c = true.
Proof.
  destruct a, b, c; simpl; try congruence; auto.
  intros H1 H2. apply Qeq_bool_iff in H1. apply Qeq_bool_iff in H2. apply Qeq_bool_iff.
  etransitivity; eauto.
Qed.

(* order facts transported along [xsame] *)
Lemma xltb_same_l a a' b : xsame a a' = true -> xltb a b = xltb a' b.
Proof.
  destruct a, a', b; simpl; try congruence; auto. intro H. apply Qeq_bool_iff in H.
  unfold Qltb. f_equal.
  destruct (Qle_bool q1 q) eqn:E1, (Qle_bool q1 q0) eqn:E2; auto.
  - apply Qle_bool_iff in E1. assert (q1 <= q0) by lra. apply Qle_bool_iff in H0. congruence.
  - apply Qle_bool_iff in E2. assert (q1 <= q) by lra. apply Qle_bool_iff in H0. congruence.
Qed.

Lemma xltb_same_r a b b' : xsame b b' = true -> xltb a b = xltb a b'.
Proof.
  destruct a, b, b'; simpl; try congruence; auto. intro H. apply Qeq_bool_iff in H.
  unfold Qltb. f_equal.
  destruct (Qle_bool q0 q) eqn:E1, (Qle_bool q1 q) eqn:E2; auto.
  - apply Qle_bool_iff in E1. assert (q1 <= q) by lra. apply Qle_bool_iff in H0. congruence.
  - apply Qle_bool_iff in E2. assert (q0 <= q) by lra. apply Qle_bool_iff in H0. congruence.
Qed.

(* totality away from NaN *)
Lemma xltb_total a b : is_nan a = false -> is_nan b = false ->
  xltb a b = true \/ xsame a b = true \/ xltb b a = true.
Proof.
  destruct a, b; simpl; try congruence; auto. intros _ _.
  destruct (Qlt_le_dec q q0) as [H|H].
  - left. apply Qltb_lt. auto.
  - destruct (Qlt_le_dec q0 q) as [H'|H'].
    + right. right. apply Qltb_lt. auto.
    + right. left. apply Qeq_bool_iff. lra.
Qed.

Lemma Qle_bool_false a b : Qle_bool a b = false -> b < a.
Proof. intro H. apply Qnot_le_lt. intro Hc. apply Qle_bool_iff in Hc. congruence. Qed.

Lemma xgeb_not_ltb a b : is_nan a = false -> is_nan b = false -> xgeb a b = negb (xltb a b).
Proof.
  unfold xgeb, xleb. destruct a as [q| | |], b as [q0| | |]; simpl; try congruence; auto. intros _ _.
  unfold Qltb. rewrite negb_involutive.
  destruct (Qle_bool q0 q) eqn:E, (Qle_bool q q0) eqn:E2, (Qeq_bool q0 q) eqn:E3; simpl; auto; exfalso;
  repeat match goal with
  | H : Qle_bool _ _ = true |- _ => apply Qle_bool_iff in H
  | H : Qle_bool _ _ = false |- _ => apply Qle_bool_false in H
  | H : Qeq_bool _ _ = true |- _ => apply Qeq_bool_iff in H
  | H : Qeq_bool _ _ = false |- _ => apply Qeq_bool_neq in H
  end; try lra.
Qed.

(* small order facts used by the state-machine proofs *)
Lemma xleb_NInf_false h l : xltb l h = true -> xleb h NInf = false.
Proof. destruct h, l; simpl; auto; discriminate. Qed.

Lemma xltb_NInf_r v : xltb v NInf = false.
Proof. destruct v; auto. Qed.

Lemma xleb_not_gt a b : xleb a b = true -> xltb b a = false.
Proof.
  unfold xleb. destruct a, b; simpl; auto; try discriminate.
  rewrite orb_true_iff. intros [H|H].
  - apply Qltb_lt in H. destruct (Qltb q0 q) eqn:E; auto. apply Qltb_lt in E. lra.
  - apply Qeq_bool_iff in H. destruct (Qltb q0 q) eqn:E; auto. apply Qltb_lt in E. lra.
Qed.

Lemma xltb_not_nan_l a b : xltb a b = true -> is_nan a = false.
Proof. destruct a; auto. Qed.
Lemma xltb_not_nan_r a b : xltb a b = true -> is_nan b = false.
Proof. destruct a, b; auto. Qed.

Lemma xleb_ltb_false a b : is_nan a = false -> is_nan b = false -> xleb a b = false -> xltb b a = true.
Proof.
  intros Ha Hb H. change (xleb a b) with (xgeb b a) in H. rewrite xgeb_not_ltb in H; auto.
  apply negb_false_iff in H. auto.
Qed.

(* Base/Float53.v — rounding of an exact rational to the nearest IEEE-754 binary64 value (round-half-to-even), for the normal
   range: what Python computes for one floating-point operation whose exact result is the rational.  Used where the implementation
   performs arithmetic on parsed numbers (value * percent / 100 in the parser). *)
From Coq Require Import ZArith QArith.
Local Open Scope Z_scope.

(* n/d rounded to the nearest integer, ties to even; d > 0, n >= 0 *)
Definition div_half_even (n d : Z) : Z :=
  let q := n / d in
  let r := n mod d in
  match Z.compare (2 * r) d with
  | Lt => q
  | Gt => q + 1
  | Eq => if Z.even q then q else q + 1
  end.

Definition fl53 (x : Q) : Q :=
  let n := Qnum x in
  let d := Zpos (Qden x) in
  if n =? 0 then 0%Q else
  let a := Z.abs n in
  let e0 := Z.log2 a - Z.log2 d in
  (* 2^e <= a/d < 2^(e+1) *)
  let ge := if 0 <=? e0 then d * 2 ^ e0 <=? a else d <=? a * 2 ^ (- e0) in
  let e := if ge then e0 else e0 - 1 in
  let s := 52 - e in
  let m := if 0 <=? s then div_half_even (a * 2 ^ s) d else div_half_even a (d * 2 ^ (- s)) in
  let sm := if n <? 0 then - m else m in
  if 0 <=? s then Qred (sm # Z.to_pos (2 ^ s)) else Qred (inject_Z (sm * 2 ^ (- s))).

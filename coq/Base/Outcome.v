(* Base/Outcome.v — explicit outcomes: no totalised defaults.
   [Err] = an exception the library raises deliberately (class recorded),
   [Crash] = an accidental exception (the properties forbid these). *)
From Coq Require Import List Bool.
Import ListNotations.

Inductive errkind :=
  | EValue | EKey | EType            (* ValueError / KeyError / TypeError raised by an explicit check *)
  | EParse (n : nat)                 (* ParsingError subclasses, numbered by the harness table *)
  | ETokenizing
  | EInfiniteImpedance | ENotANumber | EInfiniteLimit | ENotImplemented
  | EUnsupported | EOther (n : nat).

Inductive crashkind :=
  | CTypeNone | CIndex | CAttr | CKeyMissing | CRecursion | COverflow | COutOfFuel | CZeroDiv | COtherCrash (n : nat).

Inductive outcome (A : Type) :=
  | Ok (a : A) | Err (e : errkind) | Crash (c : crashkind).
Arguments Ok {A} a.
Arguments Err {A} e.
Arguments Crash {A} c.

Definition bind {A B} (o : outcome A) (f : A -> outcome B) : outcome B :=
  match o with Ok a => f a | Err e => Err e | Crash c => Crash c end.
Notation "'let*' x ':=' o 'in' k" := (bind o (fun x => k)) (at level 200, x pattern, right associativity).

Definition errkind_eqb (a b : errkind) : bool :=
  match a, b with
  | EValue, EValue | EKey, EKey | EType, EType | ETokenizing, ETokenizing
  | EInfiniteImpedance, EInfiniteImpedance | ENotANumber, ENotANumber
  | EInfiniteLimit, EInfiniteLimit | ENotImplemented, ENotImplemented
  | EUnsupported, EUnsupported => true
  | EParse n, EParse m => Nat.eqb n m
  | EOther n, EOther m => Nat.eqb n m
  | _, _ => false
  end.

Definition crashkind_eqb (a b : crashkind) : bool :=
  match a, b with
  | CTypeNone, CTypeNone | CIndex, CIndex | CAttr, CAttr | CKeyMissing, CKeyMissing
  | CRecursion, CRecursion | COverflow, COverflow | COutOfFuel, COutOfFuel | CZeroDiv, CZeroDiv => true
  | COtherCrash n, COtherCrash m => Nat.eqb n m
  | _, _ => false
  end.

(* indices of the cases on which a model and the observed outcome differ *)
Fixpoint mismatches {I O} (eqb : O -> O -> bool) (f : I -> O) (cases : list (nat * I * O)) : list nat :=
  match cases with
  | [] => []
  | (i, x, o) :: r => if eqb (f x) o then mismatches eqb f r else i :: mismatches eqb f r
  end.

(* the result of a call that returns nothing: normal return or the class of the exception *)
Inductive res_kind := RK_ok | RK_err (e : errkind) | RK_crash (c : crashkind).
Definition res_kind_eqb (a b : res_kind) : bool :=
  match a, b with
  | RK_ok, RK_ok => true
  | RK_err x, RK_err y => errkind_eqb x y
  | RK_crash x, RK_crash y => crashkind_eqb x y
  | _, _ => false
  end.

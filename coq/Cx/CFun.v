(* Cx/CFun.v — vocabulary for closed-form impedance expressions over Coquelicot's C, and the
   [ceq] tactic: equality of two expressions built from + - * / and opaque function symbols,
   decided by unifying the arguments of equal heads with [ring] and finishing with [ring].
   No [field]: no side conditions, so nothing is proved "because of" division by zero. *)
From Coq Require Import Reals ZArith.
From Coquelicot Require Import Coquelicot.
Open Scope C_scope.

Definition cz (n : Z) : C := RtoC (IZR n).
Definition cq (n d : Z) : C := RtoC (IZR n) / RtoC (IZR d).
Definition cpi : C := RtoC PI.

(* unify one pair of applications of the unary symbol [f] *)
Ltac unify_un f :=
  match goal with
  | |- context [f ?a] =>
      match goal with
      | |- context [f ?b] =>
          lazymatch a with b => fail | _ => idtac end;
          lazymatch a with context [b] => fail | _ => idtac end;
          let H := fresh "Hu" in
          assert (H : b = a) by (solve [ring]); rewrite H; clear H
      end
  end.

(* unify one pair of applications of the binary symbol [f], argument by argument *)
Ltac unify_bin f :=
  match goal with
  | |- context [f ?a ?e] =>
      match goal with
      | |- context [f ?b ?e2] =>
          first
            [ lazymatch a with b => fail | _ => idtac end;
              lazymatch a with context [b] => fail | _ => idtac end;
              let H := fresh "Hu" in
              assert (H : b = a) by (solve [ring]); rewrite H; clear H
            | lazymatch e with e2 => fail | _ => idtac end;
              lazymatch e with context [e2] => fail | _ => idtac end;
              let H := fresh "Hu" in
              assert (H : e2 = e) by (solve [ring]); rewrite H; clear H ]
      end
  end.

(* The function symbols of impedance expressions.  They are uninterpreted: every identity proved for
   [forall S : syms] holds for any interpretation satisfying the single law [s_cpow_neg]
   (z^(-a) = 1/z^a, true of the principal complex power exp(a log z) for z <> 0 and, by the
   convention 1/0 = 0 of a field with total inverse, also of any total extension defined that way). *)
Record syms := mkSyms {
  s_cpow : C -> C -> C;
  s_tanh : C -> C; s_coth : C -> C; s_cosh : C -> C; s_sinh : C -> C; s_exp : C -> C; s_log : C -> C;
  s_cpow_neg : forall z a : C, s_cpow z (- a) = / s_cpow z a }.

Definition s_sqrt (S : syms) (z : C) : C := s_cpow S z (cq 1 2).

(* the record is inhabited (a degenerate interpretation; shows the hypothesis is satisfiable) *)
Lemma Cinv_1 : / (RtoC 1) = RtoC 1.
Proof. apply injective_projections; simpl; field. Qed.
Definition syms_trivial : syms :=
  mkSyms (fun _ _ => RtoC 1) (fun z => z) (fun z => z) (fun z => z) (fun z => z) (fun z => z) (fun z => z)
         (fun _ _ => eq_sym Cinv_1).

(* z^(-a) next to z^a: turn the former into 1/z^a *)
Ltac cneg S :=
  match goal with
  | |- context [s_cpow S ?a ?e] =>
      match goal with
      | |- context [s_cpow S ?b ?e2] =>
          lazymatch e with e2 => fail | _ => idtac end;
          let H := fresh "Hn" in let H2 := fresh "Hb" in
          assert (H2 : b = a) by (solve [ring]);
          assert (H : e2 = - e) by (solve [ring]);
          try rewrite H2; rewrite H; rewrite (s_cpow_neg S a e); clear H H2
      end
  end.

Ltac ceq S :=
  intros; cbv zeta; unfold s_sqrt, cq, cz; unfold Cdiv;
  repeat first [ unify_bin (s_cpow S) | unify_un (s_tanh S) | unify_un (s_coth S) | unify_un (s_cosh S)
               | unify_un (s_sinh S) | unify_un (s_exp S) | unify_un (s_log S) | unify_un Cinv | cneg S ];
  ring.

(* Cx/CQ.v — exact complex rationals (the executable number type of the correspondence checks). *)
From Coq Require Import ZArith QArith Qabs Bool List.
Import ListNotations.

Definition cq2 := (Q * Q)%type.
Definition cq0 : cq2 := (0, 0).
Definition cq_add (a b : cq2) : cq2 := (Qred (fst a + fst b), Qred (snd a + snd b)).
Definition cq_mul (a b : cq2) : cq2 :=
  (Qred (fst a * fst b - snd a * snd b), Qred (fst a * snd b + snd a * fst b)).
Definition cq_inv (a : cq2) : cq2 :=
  let d := (fst a * fst a + snd a * snd a)%Q in (Qred (fst a / d), Qred (- snd a / d)).
Definition cq_is0 (a : cq2) : bool := Qeq_bool (fst a) 0 && Qeq_bool (snd a) 0.

(* |a - b|^2 <= tol^2 * |b|^2, tol = 10^-e; or both (numerically) zero *)
Definition cq_close (e : Z) (a b : cq2) : bool :=
  let dr := (fst a - fst b)%Q in let di := (snd a - snd b)%Q in
  let n2 := (fst b * fst b + snd b * snd b)%Q in
  Qle_bool ((dr * dr + di * di) * Qpower (10 # 1) (2 * e)) n2 || (cq_is0 a && cq_is0 b).

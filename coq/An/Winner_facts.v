(* An/Winner_facts.v — with pairwise distinct keys the sorted list, hence the winner, depends only on the SET of candidates. *)
From Coq Require Import ZArith Bool List Lia Permutation Sorted.
From PV Require Import An.Winner.
Import ListNotations.

Definition klt (a b : cand) : Prop := (c_key a < c_key b)%Z.
Definition kle (a b : cand) : Prop := (c_key a <= c_key b)%Z.

Lemma insert_perm x l : Permutation (insert x l) (x :: l).
Proof.
  induction l as [|y r IH]; simpl; auto. destruct (c_key x <=? c_key y)%Z; auto.
  apply perm_trans with (y :: x :: r); [constructor; auto|apply perm_swap].
Qed.

Lemma sort_perm l : Permutation (sort l) l.
Proof.
  unfold sort. rewrite rev_involutive. induction l as [|x r IH]; simpl; auto.
  apply perm_trans with (x :: fold_right (fun x0 acc => insert x0 acc) [] r); [apply insert_perm|constructor; auto].
Qed.

Lemma insert_sorted x l : StronglySorted kle l -> StronglySorted kle (insert x l).
Proof.
  induction l as [|y r IH]; intro H; simpl.
  - constructor; constructor.
  - inversion H; subst. destruct (c_key x <=? c_key y)%Z eqn:E.
    + apply Z.leb_le in E. constructor; auto. constructor; [unfold kle; lia|].
      rewrite Forall_forall in *. intros z Hz. specialize (H3 z Hz). unfold kle in *. lia.
    + apply Z.leb_gt in E. constructor; auto.
      rewrite Forall_forall in *. intros z Hz. apply (Permutation_in _ (insert_perm x r)) in Hz.
      destruct Hz as [<-|Hz]; [unfold kle; lia|auto].
Qed.

Lemma sort_sorted l : StronglySorted kle (sort l).
Proof.
  unfold sort. rewrite rev_involutive. induction l as [|x r IH]; simpl; [constructor|]. apply insert_sorted. auto.
Qed.

(* two ascending lists with the same elements and pairwise distinct keys are equal *)
Lemma sorted_unique : forall l l', StronglySorted kle l -> StronglySorted kle l' -> Permutation l l' ->
  NoDup (map c_key l) -> l = l'.
Proof.
  induction l as [|x r IH]; intros l' Hs Hs' Hp Hnd.
  - apply Permutation_nil in Hp. auto.
  - destruct l' as [|y r']; [apply Permutation_sym, Permutation_nil in Hp; discriminate|].
    inversion Hs; subst. inversion Hs'; subst. simpl in Hnd. inversion Hnd; subst.
    assert (Hxy : x = y).
    { assert (Hx : In x (y :: r')) by (apply (Permutation_in _ Hp); simpl; auto).
      assert (Hy : In y (x :: r)) by (apply (Permutation_in _ (Permutation_sym Hp)); simpl; auto).
      destruct Hx as [->|Hx]; auto. destruct Hy as [->|Hy]; auto.
      rewrite Forall_forall in H2, H4. pose proof (H2 y Hy) as L1. pose proof (H4 x Hx) as L2. unfold kle in *.
      assert (Hk : c_key x = c_key y) by lia. exfalso. apply H5. rewrite Hk. apply in_map. auto. }
    subst y. f_equal. apply IH; auto. apply Permutation_cons_inv with x. auto.
Qed.

Theorem sort_schedule_free l l' : Permutation l l' -> NoDup (map c_key l) -> sort l = sort l'.
Proof.
  intros Hp Hnd. apply sorted_unique; try apply sort_sorted.
  - apply perm_trans with l; [apply sort_perm|]. apply perm_trans with l'; auto. apply Permutation_sym, sort_perm.
  - apply (Permutation_NoDup (l := map c_key l)); auto. apply Permutation_map, Permutation_sym, sort_perm.
Qed.

Theorem winner_schedule_free l l' : Permutation l l' -> NoDup (map c_key l) -> winner l = winner l'.
Proof. intros. unfold winner. rewrite (sort_schedule_free l l'); auto. Qed.

(* the winner has the least key *)
Theorem winner_is_min l w : winner l = Some w -> forall c, In c l -> (c_key w <= c_key c)%Z.
Proof.
  unfold winner. intros H c Hc. pose proof (sort_sorted l) as Hs. pose proof (sort_perm l) as Hp.
  destruct (sort l) as [|x r]; [discriminate|]. inversion H; subst x. inversion Hs; subst.
  apply (Permutation_in _ (Permutation_sym Hp)) in Hc. destruct Hc as [<-|Hc]; [lia|].
  rewrite Forall_forall in H3. apply (H3 c Hc).
Qed.

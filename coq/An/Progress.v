(* An/Progress.v — executable model of pyimpspec.progress.Progress and _update_every_N_percent (N = 1):
   the step counter, the total, the module-level "recent progress" and what is emitted to callbacks.
   Fractions are exact rationals.  Model only. *)
From Coq Require Import ZArith QArith Bool List.
From PV Require Import Base.Num Base.Outcome.
Import ListNotations.

Record pstate := mkPr { p_i : Z; p_total : Z; p_recent : option Q }.   (* recent = None models _RECENT_PROGRESS < 0 *)

Definition step100 : Q := 1 # 100.

(* _update_every_N_percent(i, total, force): returns the new module state and the emitted fraction, if any.
   total = 0 raises ZeroDivisionError *)
Definition update (i total : Z) (recent : option Q) (force : bool) : outcome (option Q * option Q) :=
  if (total =? 0)%Z then Crash CZeroDiv
  else
    let recent := if (i =? 0)%Z then None else recent in
    let progress := (inject_Z i / inject_Z total)%Q in
    let '(recent', emitted) :=
      match recent with
      | None => (Some 0%Q, Some 0%Q)
      | Some r =>
          if Qle_bool (r + step100) progress then (Some (r + step100)%Q, Some (r + step100)%Q)
          else if force then (Some r, Some progress)
          else (Some r, None)
      end in
    let recent'' := if (total <=? i)%Z then None else recent' in
    Ok (recent'', emitted).

Inductive pop :=
  | PEnter
  | PIncrement (step : Z) (force : bool)
  | PSet (i : Z)
  | PSetMessage (i total : Z) (force : bool)     (* i >= 0 resets the counter to 0 (sic); total >= 0 replaces the total *)
  | PExit.

(* result of one call: the new state, the emission, or the exception *)
Definition pstep (s : pstate) (o : pop) : outcome (pstate * option Q) :=
  match o with
  | PEnter =>
      let* (r, e) := update (p_i s) (p_total s) (p_recent s) false in Ok (mkPr (p_i s) (p_total s) r, e)
  | PIncrement st force =>
      let i' := (p_i s + st)%Z in
      if (p_total s <? i')%Z then Err EValue     (* the counter is updated before the check; the exception leaves it there *)
      else let* (r, e) := update i' (p_total s) (p_recent s) force in Ok (mkPr i' (p_total s) r, e)
  | PExit =>
      let i' := (p_i s + 1)%Z in
      if (p_total s <? i')%Z then Err EValue
      else let* (r, e) := update i' (p_total s) (p_recent s) false in Ok (mkPr i' (p_total s) r, e)
  | PSet i =>
      if (p_total s <? i)%Z then Err EValue
      else let* (r, e) := update i (p_total s) (p_recent s) false in Ok (mkPr i (p_total s) r, e)
  | PSetMessage i total force =>
      let i' := if (0 <=? i)%Z then 0%Z else p_i s in
      let t' := if (0 <=? total)%Z then total else p_total s in
      let* (r, e) := update i' t' (p_recent s) force in Ok (mkPr i' t' r, e)
  end.

(* run a sequence; stops at the first exception (the state after a refused increment keeps the bumped counter) *)
Fixpoint prun (s : pstate) (ops : list pop) : list (outcome (option Q)) :=
  match ops with
  | [] => []
  | o :: r =>
      match pstep s o with
      | Ok (s', e) => Ok e :: prun s' r
      | Err er => [Err er]
      | Crash c => [Crash c]
      end
  end.

(* ---- step accounting of the analyses: total number of increments along a complete run vs the announced total ---- *)
(* perform_zhit: weights, smoothing, interpolation, reconstruction, offset adjustment, then __exit__ *)
Definition zhit_increments (nw ns ni : Z) : Z := (nw + ns + ns * ni + ns * ni + nw * (ns * ni))%Z.
(* fit_circuit: one increment per (method, weight) pair, then __exit__ *)
Definition fit_increments (nm nwt : Z) : Z := (nm * nwt)%Z.

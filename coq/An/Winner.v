(* An/Winner.v — how the analyses pick a winner after fanning work out to a process pool:
   (a) pool.imap / pool.map return results in submission order (fit_circuit, the cnls test, evaluate_log_F_ext);
   (b) pool.imap_unordered returns them in completion order — any permutation — and the caller then applies Python's
       stable sorted(..., key=pseudo chi-squared) and takes element 0 (Z-HIT).
   Candidates carry an integer key (the harness scales chi-squared to integers for the executable examples).  Model only. *)
From Coq Require Import ZArith Bool List.
Import ListNotations.

Record cand := mkCand { c_key : Z; c_label : nat }.

(* Python's sorted(): stable insertion into an ascending list (equal keys keep arrival order) *)
Fixpoint insert (x : cand) (l : list cand) : list cand :=
  match l with
  | [] => [x]
  | y :: r => if (c_key x <=? c_key y)%Z then x :: l else y :: insert x r
  end.
Definition sort (l : list cand) : list cand := fold_right (fun x acc => insert x acc) [] (rev (rev l)).
(* stability: fold_right inserts the LAST arrival first and [insert] puts x BEFORE keys that are greater or EQUAL, so among equal
   keys earlier arrivals stay first, as with Python's sorted() *)

Definition winner (arrival : list cand) : option cand := hd_error (sort arrival).

(* (a): an ordered map ignores the schedule *)
Definition ordered_map {A B} (f : A -> B) (jobs : list A) (schedule : list nat) : list B := map f jobs.

(* An/DRT_facts.v — DRT (C13): invariances and closed-form facts about the lines regenerated from tr_nnls.py, lm.py and
   mrq_fit.py (gen/DRT_gen.v). *)
From Coq Require Import Reals List Lra.
From Coquelicot Require Import Coquelicot.
From PV Require Import Cx.CFun gen.DRT_gen gen.El_K An.KKBase gen.KK_gen An.KK_facts.
Import ListNotations.
Local Open Scope R_scope.

(* ---- TR-NNLS: the kernel is the unit parallel RC element ----------------------------------------------------------------- *)
(* the rows of A are delta_ln_tau times the real part / minus the imaginary part of 1/(1 + j w tau), i.e. of the impedance of the
   Kramers-Kronig 'K' element with R = 1 (generated for C02) *)
Theorem trnnls_kernel_is_unit_RC (S : syms) is_im w tau dlt :
  drt_A_entry is_im w tau dlt = dlt * drt_rhs is_im (K_impl S (fC w) (RtoC 1) (RtoC tau)).
Proof.
  rewrite K_term. unfold drt_A_entry, drt_rhs, ls_kth. destruct is_im; simpl; field; nra.
Qed.

Theorem trnnls_model_term_is_kernel is_im w tau dlt g : drt_model_term is_im w tau dlt g = g * drt_A_entry is_im w tau dlt.
Proof. unfold drt_model_term, drt_A_entry. destruct is_im; simpl; field; nra. Qed.

(* at zero frequency the real kernel is the quadrature width: sum_j g_j delta_j is the normalised polarisation resistance *)
Theorem trnnls_kernel_dc tau dlt : drt_A_entry false 0 tau dlt = dlt.
Proof. unfold drt_A_entry. simpl. field. Qed.

(* ---- scaling the impedance by k ------------------------------------------------------------------------------------------- *)
Theorem trnnls_normalisation_zscale k Zf Zl :
  drt_R_inf (RtoC k * Zf)%C = k * drt_R_inf Zf /\ drt_R_pol (RtoC k * Zf)%C (RtoC k * Zl)%C = k * drt_R_pol Zf Zl.
Proof. unfold drt_R_inf, drt_R_pol. destruct Zf, Zl; simpl. split; ring. Qed.

Theorem trnnls_Znorm_zscale k Z Rinf Rpol : k <> 0 -> Rpol <> 0 ->
  drt_Z_norm (RtoC k * Z)%C (k * Rinf) (k * Rpol) = drt_Z_norm Z Rinf Rpol.
Proof.
  intros Hk Hr. unfold drt_Z_norm. destruct Z as [a b]. apply Ceq; simpl; field; repeat split; auto.
Qed.

(* hence A, b and the solution g are unchanged and gamma = g R_pol is multiplied by k; the time constants do not involve Z *)
Theorem trnnls_gamma_zscale k g Rpol : drt_gamma g (k * Rpol) = k * drt_gamma g Rpol.
Proof. unfold drt_gamma. ring. Qed.

(* ---- scaling the frequencies by c > 0 ------------------------------------------------------------------------------------- *)
Theorem trnnls_tau_fscale c w : c <> 0 -> w <> 0 -> drt_tau (c * w) = drt_tau w / c.
Proof. intros. unfold drt_tau. field. split; auto. Qed.

Theorem trnnls_delta_fscale c ta tb : 0 < c -> 0 < ta -> 0 < tb ->
  drt_delta_interior (ta / c) (tb / c) = drt_delta_interior ta tb /\ drt_delta_end (ta / c) (tb / c) = drt_delta_end ta tb.
Proof.
  intros Hc Ha Hb. unfold drt_delta_interior, drt_delta_end.
  assert (E : forall t, 0 < t -> ln (t / c) = ln t - ln c).
  { intros t Ht. unfold Rdiv. rewrite ln_mult; [|auto|apply Rinv_0_lt_compat; auto]. rewrite ln_Rinv by auto. ring. }
  rewrite !E by auto. split; ring.
Qed.

Theorem trnnls_kernel_fscale is_im c w tau dlt : c <> 0 -> drt_A_entry is_im (c * w) (tau / c) dlt = drt_A_entry is_im w tau dlt.
Proof. intro Hc. unfold drt_A_entry. replace (c * w * (tau / c)) with (w * tau) by (field; auto). reflexivity. Qed.

(* ---- non-negativity -------------------------------------------------------------------------------------------------------- *)
(* nnls returns g >= 0 (its contract); the polarisation resistance of a ladder measured from high to low frequency is positive *)
Theorem trnnls_gamma_nonneg g Rpol : 0 <= g -> 0 < Rpol -> 0 <= drt_gamma g Rpol.
Proof. intros. unfold drt_gamma. apply Rmult_le_pos; lra. Qed.

(* Re[R/(1 + j w tau)] = R/(1 + (w tau)^2) decreases with frequency: a ladder of parallel RC elements with positive resistances
   has R_pol > 0 when the first point has the highest frequency *)
Lemma rc_real_part (S : syms) w r tau : Re (K_impl S (fC w) (RtoC r) (RtoC tau)) = r / (1 + (w * tau) * (w * tau)).
Proof. rewrite K_term, Re_scal. unfold ls_kth. simpl. field. pose proof (Rle_0_sqr (w * tau)) as H. unfold Rsqr in H. lra. Qed.

Theorem rc_real_part_decreasing (S : syms) w1 w2 r tau : 0 < r -> 0 < tau -> 0 <= w2 -> w2 < w1 ->
  Re (K_impl S (fC w1) (RtoC r) (RtoC tau)) < Re (K_impl S (fC w2) (RtoC r) (RtoC tau)).
Proof.
  intros Hr Ht H2 H12. rewrite !rc_real_part. unfold Rdiv. apply Rmult_lt_compat_l; auto.
  assert (Ha : 0 <= w2 * tau) by (apply Rmult_le_pos; lra).
  assert (Hb : w2 * tau < w1 * tau) by (apply Rmult_lt_compat_r; auto).
  assert (Hsq : w2 * tau * (w2 * tau) < w1 * tau * (w1 * tau)) by (apply Rmult_le_0_lt_compat; auto).
  pose proof (Rle_0_sqr (w2 * tau)) as Hs. unfold Rsqr in Hs.
  apply Rinv_lt_contravar; [|lra]. apply Rmult_lt_0_compat; lra.
Qed.

(* ---- Loewner method: the coded peak formulas give back (tau_k, R_k) ------------------------------------------------------ *)
(* a ladder of parallel RC elements is Z(s) = sum_k (R_k / tau_k) / (s + 1/tau_k): poles -1/tau_k with residues R_k/tau_k *)
Theorem rc_partial_fraction (s : C) r tau : tau <> 0 -> (RtoC 1 + s * RtoC tau)%C <> 0 ->
  (RtoC r / (RtoC 1 + s * RtoC tau))%C = (RtoC (r / tau) / (s - RtoC (- / tau)))%C.
Proof.
  intros Ht Hd.
  assert (Htc : RtoC tau <> 0) by (intro H; apply Ht; injection H; auto).
  replace (s - RtoC (- / tau))%C with ((RtoC 1 + s * RtoC tau) / RtoC tau)%C.
  - replace (RtoC (r / tau)) with (RtoC r / RtoC tau)%C by (apply Ceq; simpl; field; auto). field. split; auto.
  - replace (RtoC (- / tau)) with (- (RtoC 1 / RtoC tau))%C by (apply Ceq; simpl; field; auto). field. auto.
Qed.

Theorem lm_peak_formulas r tau : 0 < tau ->
  lm_time_constant (RtoC (- / tau)) = tau /\ lm_gamma (RtoC (r / tau)) (RtoC (- / tau)) = r.
Proof.
  intro Ht. unfold lm_time_constant, lm_gamma. split.
  - replace (- RtoC 1 / RtoC (- / tau))%C with (RtoC tau) by (apply Ceq; simpl; field; lra).
    rewrite Cmod_R. apply Rabs_pos_eq. lra.
  - replace (- RtoC (r / tau) / RtoC (- / tau))%C with (RtoC r) by (apply Ceq; simpl; field; lra). reflexivity.
Qed.

(* ---- m(RQ)fit: the analytic distributions peak at tau_0 ------------------------------------------------------------------ *)
Lemma cosh_ge_1 x : 1 <= cosh x.
Proof.
  unfold cosh. pose proof (exp_pos x) as Hp. rewrite exp_Ropp.
  assert (H : 2 <= exp x + / exp x).
  { assert (E : exp x + / exp x - 2 = (exp x - 1) * (exp x - 1) / exp x) by (field; lra).
    assert (0 <= (exp x - 1) * (exp x - 1) / exp x).
    { unfold Rdiv. apply Rmult_le_pos; [apply Rle_0_sqr|]. apply Rlt_le, Rinv_0_lt_compat; auto. }
    lra. }
  lra.
Qed.

(* (RQ) with 0 < n < 1 and R > 0: gamma(tau) <= gamma(tau_0) for every tau > 0, with the value R/(2 pi) tan(n pi / 2)-like maximum at tau_0 *)
Theorem mrq_rq_peak_at_tau0 r n tau tau0 : 0 < r -> 0 < n < 1 -> 0 < tau0 ->
  mrq_gamma_rq r n tau tau0 <= mrq_gamma_rq r n tau0 tau0.
Proof.
  intros Hr [Hn0 Hn1] Ht0. unfold mrq_gamma_rq.
  replace (tau0 / tau0) with 1 by (field; lra). rewrite ln_1, Rmult_0_r, cosh_0.
  set (a := (1 - n) * PI).
  assert (Ha : 0 < a < PI) by (unfold a; pose proof PI_RGT_0; split; nra).
  assert (Hs : 0 < sin a) by (apply sin_gt_0; lra).
  assert (Hc : cos a < 1).
  { destruct (Rlt_dec (cos a) 1); auto. exfalso. pose proof (COS_bound a) as [_ Hb]. assert (E : cos a = 1) by lra.
    pose proof (sin2_cos2 a) as H2. unfold Rsqr in H2. rewrite E in H2. nra. }
  pose proof (cosh_ge_1 (n * ln (tau / tau0))) as Hch.
  assert (Hnum : 0 < r / (2 * PI) * sin a).
  { apply Rmult_lt_0_compat; auto. unfold Rdiv. apply Rmult_lt_0_compat; auto. apply Rinv_0_lt_compat. pose proof PI_RGT_0. lra. }
  unfold Rdiv at 1 3. apply Rmult_le_compat_l; [lra|].
  apply Rinv_le_contravar; lra.
Qed.

(* (RC): the Gaussian of width W is centred at tau_0 *)
Theorem mrq_rc_peak_at_tau0 r W tau tau0 : 0 < r -> 0 < W -> 0 < tau0 ->
  mrq_gamma_rc r W tau tau0 <= mrq_gamma_rc r W tau0 tau0.
Proof.
  intros Hr HW Ht0. unfold mrq_gamma_rc.
  replace (tau0 / tau0) with 1 by (field; lra). rewrite ln_1.
  replace (- (0 / W * (0 / W))) with 0 by (field; lra). rewrite exp_0.
  assert (Hpre : 0 < r / (W * sqrt PI)).
  { unfold Rdiv. apply Rmult_lt_0_compat; auto. apply Rinv_0_lt_compat. apply Rmult_lt_0_compat; auto. apply sqrt_lt_R0. apply PI_RGT_0. }
  apply Rmult_le_compat_l; [lra|].
  set (y := - (ln (tau / tau0) / W * (ln (tau / tau0) / W))).
  assert (Hy : y <= 0) by (unfold y; pose proof (Rle_0_sqr (ln (tau / tau0) / W)) as Hq; unfold Rsqr in Hq; lra).
  destruct (Rle_lt_or_eq_dec y 0 Hy) as [Hlt|Heq].
  - apply Rlt_le. replace 1 with (exp 0) by apply exp_0. apply exp_increasing. exact Hlt.
  - rewrite Heq, exp_0. lra.
Qed.

(* tau_0 = (R Y)^(1/n) is R C for n = 1 *)
Theorem mrq_tau0_rc r c : 0 < r * c -> mrq_tau_0 r c 1 = r * c.
Proof. intro H. unfold mrq_tau_0. replace (1 / 1) with 1 by field. apply Rpower_1. exact H. Qed.

(* An/Progress_kk.v — evaluate_log_F_ext: on each of its three routes the number of increments the Progress object can receive stays
   below the announced total, so the block runs to the end (no increment, and not the one of __exit__, is refused).  The totals and the
   stage sizes are translated from exploratory.py (gen/KKSteps_gen.v); where the increments happen is checked structurally by the same
   translator (tools/tr_kksteps.py). *)
From Coq Require Import ZArith Bool List Lia.
From PV Require Import Base.Num Base.Outcome An.Progress An.Progress_blocks gen.KKSteps_gen.
Import ListNotations.
Open Scope Z_scope.

(* fixed extension: the weight, then in the chosen implementation one increment before its loop and one per collected result (the
   non-linear implementation may stop early and then counts the argument tuples it never submitted: never more than n in all) *)
Definition kk_incs_fixed (collected : Z) : Z := 1 + (1 + collected).
(* search with the custom approach: the weight, the baseline test, one per collected result of either stage *)
Definition kk_incs_custom (c1 c2 : Z) : Z := 1 + 1 + c1 + c2.
(* search with lmfit (non-positive number of evaluations): the weight, one per evaluation of the residual function *)
Definition kk_incs_lmfit (nfev : Z) : Z := 1 + nfev.

Lemma kk_fixed_below_total n collected :
  0 <= collected <= n -> kk_incs_fixed collected + 1 <= kk_total_fixed n.
Proof. unfold kk_incs_fixed, kk_total_fixed. lia. Qed.

Lemma kk_custom_below_total N c1 c2 :
  kk_least_evaluations <= N ->
  0 <= c1 <= kk_stage1_points N ->
  0 <= c2 <= kk_stage2_points N (c1 + 1) ->
  kk_incs_custom c1 c2 + 1 <= kk_total_search N.
Proof.
  unfold kk_incs_custom, kk_total_search, kk_stage1_points, kk_stage2_points, kk_least_evaluations.
  intros HN [H1 H1'] [H2 H2'].
  assert (E : (N <? 0) = false) by (apply Z.ltb_ge; lia). rewrite E.
  pose proof (Z.div_mod (- N) 2 ltac:(lia)) as Hd. pose proof (Z.mod_pos_bound (- N) 2 ltac:(lia)) as Hm.
  cbv zeta in *. lia.
Qed.

Lemma kk_lmfit_below_total N nfev :
  N < 0 -> 0 <= nfev <= Z.abs N -> kk_incs_lmfit nfev + 1 <= kk_total_search N.
Proof.
  unfold kk_incs_lmfit, kk_total_search. intros HN Hn.
  assert (E : (N <? 0) = true) by (apply Z.ltb_lt; lia). rewrite E. cbv zeta. lia.
Qed.

Lemma kk_total_fixed_pos n : 0 <= n -> 0 < kk_total_fixed n.
Proof. unfold kk_total_fixed. lia. Qed.
Lemma kk_total_search_pos N : 0 < kk_total_search N.
Proof. unfold kk_total_search. destruct (N <? 0); cbv zeta; lia. Qed.

Definition runs_to_the_end (T : Z) (ops : list pop) : Prop :=
  forallb is_ok (prun (mkPr 0 T None) (PEnter :: ops ++ [PExit])) = true /\
  length (prun (mkPr 0 T None) (PEnter :: ops ++ [PExit])) = S (S (length ops)).

Theorem kk_fixed_block_runs n collected ops :
  0 <= collected <= n -> forallb block_op ops = true -> incs ops = kk_incs_fixed collected ->
  runs_to_the_end (kk_total_fixed n) ops.
Proof.
  intros Hc Hops Hi. apply block_runs_to_the_end; auto.
  - apply kk_total_fixed_pos. lia.
  - rewrite Hi. apply kk_fixed_below_total. exact Hc.
Qed.

Theorem kk_custom_block_runs N c1 c2 ops :
  kk_least_evaluations <= N -> 0 <= c1 <= kk_stage1_points N -> 0 <= c2 <= kk_stage2_points N (c1 + 1) ->
  forallb block_op ops = true -> incs ops = kk_incs_custom c1 c2 ->
  runs_to_the_end (kk_total_search N) ops.
Proof.
  intros HN H1 H2 Hops Hi. apply block_runs_to_the_end; auto.
  - apply kk_total_search_pos.
  - rewrite Hi. apply kk_custom_below_total; assumption.
Qed.

Theorem kk_lmfit_block_runs N nfev ops :
  N < 0 -> 0 <= nfev <= Z.abs N ->
  forallb block_op ops = true -> incs ops = kk_incs_lmfit nfev ->
  runs_to_the_end (kk_total_search N) ops.
Proof.
  intros HN Hn Hops Hi. apply block_runs_to_the_end; auto.
  - apply kk_total_search_pos.
  - rewrite Hi. apply kk_lmfit_below_total; assumption.
Qed.

(* non-vacuity: the default search (20 evaluations) with both stages full; the smallest search; a two-test fixed run *)
Example kk_custom_default : kk_least_evaluations <= 20 /\ 0 <= 11 <= kk_stage1_points 20 /\ 0 <= 7 <= kk_stage2_points 20 (11 + 1) /\
  kk_incs_custom 11 7 + 1 = 21 /\ kk_total_search 20 = 23.
Proof. vm_compute. repeat split; discriminate. Qed.
Example kk_custom_smallest : kk_stage1_points 10 = 6 /\ kk_stage2_points 10 7 = 2 /\ kk_total_search 10 = 13 /\ kk_total_search (-10) = 15.
Proof. vm_compute. repeat split. Qed.

(* An/Suggest_facts.v — the test result that the default path of suggest_num_RC returns lies inside the limits it reports, whatever
   the scores, sort keys and replacement condition compute (they are parameters of the generated skeleton gen/Suggest_gen.v). *)
From Coq Require Import ZArith Bool List Lia.
From PV Require Import Base.Outcome gen.Suggest_gen.
Import ListNotations.
Open Scope Z_scope.

Section Facts.
Variable T : Type.
Variable num_RC : T -> Z.
Variable limits : list T -> Z -> Z -> Z -> Z * Z.
Variable first_pick : list T -> list T.
Variable order : list T -> list Z.
Variable better : Z -> T -> bool.
(* sorted() returns the elements of its argument *)
Hypothesis first_pick_sub : forall l x, In x (first_pick l) -> In x l.

Lemma refine_in ts s t : In s ts -> refine T num_RC order better ts s = Ok t -> In t ts.
Proof.
  intros Hs. unfold refine. destruct (find _ (order ts)) as [k|]; [|intro H; inversion H; subst; exact Hs].
  destruct (filter (fun t0 => num_RC t0 =? k) ts) as [|x r] eqn:E; [discriminate|].
  intro H. inversion H; subst. assert (Hin : In t (filter (fun t0 => num_RC t0 =? k) ts)) by (rewrite E; left; reflexivity).
  apply filter_In in Hin. tauto.
Qed.

Theorem suggest_within_limits tests lower upper delta t lo hi :
  suggest_default T num_RC limits first_pick order better tests lower upper delta = Ok (t, lo, hi) ->
  (lo, hi) = limits tests lower upper delta /\ in_limits T num_RC lo hi t = true /\ lo < hi /\ In t tests.
Proof.
  unfold suggest_default. destruct (limits tests lower upper delta) as [lo0 hi0].
  destruct (lo0 >=? hi0) eqn:Eg; [discriminate|].
  destruct (first_pick (filter (in_limits T num_RC lo0 hi0) tests)) as [|s r] eqn:Ef; [discriminate|].
  destruct (refine T num_RC order better (filter (in_limits T num_RC lo0 hi0) tests) s) as [t0| |] eqn:Er; try discriminate.
  cbn [bind]. intro H. inversion H; subst.
  assert (Hs : In s (filter (in_limits T num_RC lo hi) tests)).
  { apply first_pick_sub. rewrite Ef. left. reflexivity. }
  pose proof (refine_in _ _ _ Hs Er) as Ht. apply filter_In in Ht. destruct Ht as [Ht1 Ht2].
  repeat split; auto. lia.
Qed.

End Facts.

(* An/Progress_facts.v — every emitted fraction lies in [0,1]; an increment raises exactly when the counter would pass the total. *)
From Coq Require Import ZArith QArith Bool List Lia Lqa.
From PV Require Import Base.Num Base.Outcome An.Progress.
Import ListNotations.
Open Scope Q_scope.

Definition in_unit (q : Q) : Prop := 0 <= q <= 1.
Definition recent_ok (i total : Z) (r : option Q) : Prop :=
  match r with None => True | Some q => 0 <= q /\ q <= inject_Z i / inject_Z total end.

Lemma frac_le_1 i total : (0 <= i <= total)%Z -> (0 < total)%Z -> 0 <= inject_Z i / inject_Z total <= 1.
Proof.
  intros Hi Ht. assert (Hp : 0 < inject_Z total) by (change 0 with (inject_Z 0); rewrite <- Zlt_Qlt; lia).
  split.
  - apply Qle_shift_div_l; auto. rewrite Qmult_0_l. change 0 with (inject_Z 0). rewrite <- Zle_Qle. lia.
  - apply Qle_shift_div_r; auto. rewrite Qmult_1_l. rewrite <- Zle_Qle. lia.
Qed.

(* the emitted value and the new "recent" value are within [0, i/total] *)
Lemma update_ok i total recent force r e :
  (0 <= i <= total)%Z -> (0 < total)%Z ->
  (forall q, recent = Some q -> 0 <= q) ->
  update i total recent force = Ok (r, e) ->
  (forall q, e = Some q -> in_unit q) /\ (forall q, r = Some q -> 0 <= q).
Proof.
  intros Hi Ht Hr H. unfold update in H.
  assert (Et : (total =? 0)%Z = false) by (apply Z.eqb_neq; lia). rewrite Et in H.
  pose proof (frac_le_1 i total Hi Ht) as [Hp0 Hp1].
  set (rec := if (i =? 0)%Z then None else recent) in *.
  assert (Hrec : forall q, rec = Some q -> 0 <= q) by (unfold rec; destruct (i =? 0)%Z; [discriminate|auto]).
  destruct rec as [q0|].
  - pose proof (Hrec q0 eq_refl) as Hq0.
    destruct (Qle_bool (q0 + step100) (inject_Z i / inject_Z total)) eqn:E.
    + apply Qle_bool_iff in E. inversion H; subst. split.
      * intros q Hq. inversion Hq; subst. unfold in_unit, step100 in *. split; lra.
      * intros q Hq. destruct (total <=? i)%Z; [discriminate|]. inversion Hq; subst. unfold step100. lra.
    + destruct force; inversion H; subst; split; intros q Hq; try discriminate.
      * inversion Hq; subst. unfold in_unit. auto.
      * destruct (total <=? i)%Z; [discriminate|]. inversion Hq; subst. auto.
      * destruct (total <=? i)%Z; [discriminate|]. inversion Hq; subst. auto.
  - inversion H; subst. split; intros q Hq.
    + inversion Hq; subst. unfold in_unit. lra.
    + destruct (total <=? i)%Z; [discriminate|]. inversion Hq; subst. lra.
Qed.

Definition pinv (s : pstate) : Prop :=
  (0 <= p_i s <= p_total s)%Z /\ (0 < p_total s)%Z /\ forall q, p_recent s = Some q -> 0 <= q.

Definition op_sane (o : pop) : Prop :=
  match o with
  | PIncrement st _ => (0 <= st)%Z
  | PSet i => (0 <= i)%Z
  | PSetMessage i total _ => (total < 0 \/ (0 < total /\ 0 <= i))%Z     (* a new total is positive and comes with a reset of the counter *)
  | _ => True
  end.

Theorem pstep_fraction_in_unit s o s' e :
  pinv s -> op_sane o -> pstep s o = Ok (s', e) ->
  pinv s' /\ forall q, e = Some q -> in_unit q.
Proof.
  intros (Hi & Ht & Hr) Ho H. destruct o as [|st force|i|i total force|]; simpl in *.
  - destruct (update (p_i s) (p_total s) (p_recent s) false) as [[r e0]| |] eqn:Eu; simpl in H; try discriminate.
    inversion H; subst. destruct (update_ok _ _ _ _ _ _ Hi Ht Hr Eu) as [H1 H2]. split; [split; [simpl; lia|split; [simpl; lia|simpl; auto]]|auto].
  - destruct (p_total s <? p_i s + st)%Z eqn:E; [discriminate|]. apply Z.ltb_ge in E.
    destruct (update (p_i s + st) (p_total s) (p_recent s) force) as [[r e0]| |] eqn:Eu; simpl in H; try discriminate.
    inversion H; subst. assert (Hi' : (0 <= p_i s + st <= p_total s)%Z) by lia.
    destruct (update_ok _ _ _ _ _ _ Hi' Ht Hr Eu) as [H1 H2]. split; [split; [simpl; lia|split; [simpl; lia|simpl; auto]]|auto].
  - destruct (p_total s <? i)%Z eqn:E; [discriminate|]. apply Z.ltb_ge in E.
    destruct (update i (p_total s) (p_recent s) false) as [[r e0]| |] eqn:Eu; simpl in H; try discriminate.
    inversion H; subst. assert (Hi' : (0 <= i <= p_total s)%Z) by lia.
    destruct (update_ok _ _ _ _ _ _ Hi' Ht Hr Eu) as [H1 H2]. split; [split; [simpl; lia|split; [simpl; lia|simpl; auto]]|auto].
  - set (i' := if (0 <=? i)%Z then 0%Z else p_i s) in *. set (t' := if (0 <=? total)%Z then total else p_total s) in *.
    destruct (update i' t' (p_recent s) force) as [[r e0]| |] eqn:Eu; simpl in H; try discriminate.
    inversion H; subst.
    assert (Hit : (0 <= i' <= t')%Z /\ (0 < t')%Z).
    { unfold i', t'. destruct Ho as [Hn|[Hp Hi0]].
      - assert (E2 : (0 <=? total)%Z = false) by (apply Z.leb_gt; lia). rewrite E2. destruct (0 <=? i)%Z; lia.
      - assert (E2 : (0 <=? total)%Z = true) by (apply Z.leb_le; lia). assert (E1 : (0 <=? i)%Z = true) by (apply Z.leb_le; lia).
        rewrite E1, E2. lia. }
    destruct Hit as [Hi' Ht'].
    destruct (update_ok _ _ _ _ _ _ Hi' Ht' Hr Eu) as [H1 H2]. split; [split; [simpl; lia|split; [simpl; lia|simpl; auto]]|auto].
  - destruct (p_total s <? p_i s + 1)%Z eqn:E; [discriminate|]. apply Z.ltb_ge in E.
    destruct (update (p_i s + 1) (p_total s) (p_recent s) false) as [[r e0]| |] eqn:Eu; simpl in H; try discriminate.
    inversion H; subst. assert (Hi' : (0 <= p_i s + 1 <= p_total s)%Z) by lia.
    destruct (update_ok _ _ _ _ _ _ Hi' Ht Hr Eu) as [H1 H2]. split; [split; [simpl; lia|split; [simpl; lia|simpl; auto]]|auto].
Qed.

(* An/Progress_blocks.v — a `with Progress(total=T)` block whose body performs at most T - 1 unit increments (and any number of plain
   set_message calls) runs to the end: neither an increment nor the one of __exit__ is refused, and nothing divides by zero. *)
From Coq Require Import ZArith QArith Bool List Lia.
From PV Require Import Base.Num Base.Outcome An.Progress.
Import ListNotations.
Open Scope Z_scope.

(* what the body of such a block does to the progress object *)
Definition block_op (o : pop) : bool :=
  match o with
  | PIncrement st _ => st =? 1
  | PSetMessage i t _ => (i <? 0) && (t <? 0)      (* set_message(text): counter and total untouched *)
  | _ => false
  end.
Definition is_inc (o : pop) : bool := match o with PIncrement _ _ => true | _ => false end.
Definition incs (ops : list pop) : Z := Z.of_nat (length (filter is_inc ops)).

Definition is_ok {A} (o : outcome A) : bool := match o with Ok _ => true | _ => false end.

Lemma update_ok i t r f : t <> 0 -> exists r' e, update i t r f = Ok (r', e).
Proof.
  intro Ht. unfold update. destruct (t =? 0) eqn:E; [apply Z.eqb_eq in E; contradiction|].
  destruct (if i =? 0 then None else r) as [q|].
  - destruct (Qle_bool (q + step100) (inject_Z i / inject_Z t)); [eauto|]. destruct f; eauto.
  - eauto.
Qed.

Lemma body_runs T : 0 < T -> forall ops s,
  p_total s = T -> p_i s + incs ops + 1 <= T -> forallb block_op ops = true ->
  forallb is_ok (prun s (ops ++ [PExit])) = true /\ length (prun s (ops ++ [PExit])) = S (length ops).
Proof.
  intros HT. induction ops as [|o ops IH]; intros s Hs Hb Hops.
  - cbn [app prun pstep]. unfold incs in Hb. simpl in Hb.
    assert (E : (p_total s <? p_i s + 1) = false) by (apply Z.ltb_ge; lia). rewrite E.
    destruct (update_ok (p_i s + 1) (p_total s) (p_recent s) false) as (r' & e & Hu); [lia|]. rewrite Hu. simpl. auto.
  - cbn [forallb] in Hops. apply andb_prop in Hops as [Ho Hops].
    assert (Hi : incs (o :: ops) = (if is_inc o then 1 else 0) + incs ops).
    { unfold incs. cbn [filter]. destruct (is_inc o); cbn [length]; lia. }
    cbn [app prun]. destruct o as [|st f|i|i t f|]; try discriminate Ho; cbn [pstep block_op is_inc] in *.
    + apply Z.eqb_eq in Ho. subst st.
      assert (E : (p_total s <? p_i s + 1) = false) by (apply Z.ltb_ge; pose proof (Zle_0_nat (length (filter is_inc ops))); unfold incs in *; lia).
      rewrite E. destruct (update_ok (p_i s + 1) (p_total s) (p_recent s) f) as (r' & e & Hu); [lia|]. rewrite Hu. cbn [bind].
      assert (Hb' : p_i (mkPr (p_i s + 1) (p_total s) r') + incs ops + 1 <= T) by (cbn [p_i]; lia).
      destruct (IH (mkPr (p_i s + 1) (p_total s) r') Hs Hb' Hops) as [H1 H2].
      cbn [forallb is_ok length]. rewrite H1, H2. auto.
    + apply andb_prop in Ho as [Hi0 Ht0]. apply Z.ltb_lt in Hi0. apply Z.ltb_lt in Ht0.
      assert (E1 : (0 <=? i) = false) by (apply Z.leb_gt; lia). assert (E2 : (0 <=? t) = false) by (apply Z.leb_gt; lia).
      rewrite E1, E2. destruct (update_ok (p_i s) (p_total s) (p_recent s) f) as (r' & e & Hu); [lia|]. rewrite Hu. cbn [bind].
      assert (Hb' : p_i (mkPr (p_i s) (p_total s) r') + incs ops + 1 <= T) by (cbn [p_i]; lia).
      destruct (IH (mkPr (p_i s) (p_total s) r') Hs Hb' Hops) as [H1 H2].
      cbn [forallb is_ok length]. rewrite H1, H2. auto.
Qed.

(* the whole block: __enter__, the body, __exit__ *)
Theorem block_runs_to_the_end T ops :
  0 < T -> incs ops + 1 <= T -> forallb block_op ops = true ->
  forallb is_ok (prun (mkPr 0 T None) (PEnter :: ops ++ [PExit])) = true /\
  length (prun (mkPr 0 T None) (PEnter :: ops ++ [PExit])) = S (S (length ops)).
Proof.
  intros HT Hb Hops. cbn [prun pstep p_i p_total p_recent].
  destruct (update_ok 0 T None false) as (r' & e & Hu); [lia|]. rewrite Hu. cbn [bind].
  assert (Hb' : p_i (mkPr 0 T r') + incs ops + 1 <= T) by (cbn [p_i]; lia).
  destruct (body_runs T HT ops (mkPr 0 T r') eq_refl Hb' Hops) as [H1 H2].
  cbn [forallb is_ok length]. rewrite H1, H2. auto.
Qed.

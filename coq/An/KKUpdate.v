(* An/KKUpdate.v — executable models of the two _update_circuit functions (least_squares.py and matrix_inversion.py):
   how a solution vector is cut into R, the per-time-constant variables, [C], [L], and how each becomes a parameter of the
   model circuit, including the branches for a zero variable.  Checked against both implementations on generated vectors
   (tools/harness/C07.py); [ls_update_refines]/[mi_update_refines] connect it to the abstract map [update] of An/KK_facts.v. *)
From Coq Require Import ZArith QArith Qabs Qreals Reals Bool List Lia.
From PV Require Import Base.Num Base.Outcome.
Import ListNotations.
Local Open Scope Q_scope.

Record kkout := mkOut { oR : xnum; oK : list Q; oC : option xnum; oL : option xnum }.

Definition last_opt {A} (l : list A) : option A := match rev l with [] => None | a :: _ => Some a end.

Definition qinv_or (q : Q) (z : xnum) : xnum := if Qeq_bool q 0 then z else Fin (/ q).

(* least_squares.py: variables = [R] ++ ks ++ [C]? ++ [L]?; n_elements = number of elements of the circuit *)
Definition ls_update_exec (adm addC addL : bool) (n_elements num_K : nat) (v : list Q) : outcome kkout :=
  if negb (Nat.eqb n_elements (length v)) then Err EValue else
  match v with
  | [] => Crash CIndex
  | r :: rest =>
      let oR := if adm then qinv_or r PInf else Fin r in
      (* L is taken from the end first, then C *)
      let '(rest1, l) := if addL then (removelast rest, last_opt rest) else (rest, None) in
      match addL, l with
      | true, None => Crash CIndex
      | _, _ =>
        let oL := option_map (fun l => if adm then (if Qeq_bool l 0 then NInf else Fin (- / l)) else Fin l) l in
        let '(rest2, c) := if addC then (removelast rest1, last_opt rest1) else (rest1, None) in
        match addC, c with
        | true, None => Crash CIndex
        | _, _ =>
          let oC := option_map (fun c => if adm then Fin c else qinv_or c PInf) c in
          if Nat.ltb (length rest2) num_K then Crash CIndex else
          Ok (mkOut oR (firstn num_K rest2) oC oL)
        end
      end
  end.

Definition q1e18 : Q := inject_Z (10 ^ 18).
Definition q1em50 : Q := 1 / inject_Z (10 ^ 50).

(* matrix_inversion.py: the inductance is always present *)
Definition mi_update_exec (adm addC : bool) (n_elements num_K : nat) (v : list Q) : outcome kkout :=
  if negb (Nat.eqb n_elements (length v)) then Err EValue else
  match v with
  | [] => Crash CIndex
  | r :: rest =>
      let oR := if adm then (if Qeq_bool r 0 then Fin q1e18 else Fin (/ r)) else Fin r in
      match last_opt rest with
      | None => Crash CIndex
      | Some l =>
        let rest1 := removelast rest in
        let lv := if adm then - (if Qeq_bool l 0 then q1e18 else / l) else l in
        let '(rest2, c) := if addC then (removelast rest1, last_opt rest1) else (rest1, None) in
        match addC, c with
        | true, None => Crash CIndex
        | _, _ =>
          let oC := option_map (fun c => let c1 := if Qeq_bool c 0 then q1em50 else c in
                                         Fin (if adm then c1 else / c1)) c in
          if Nat.ltb (length rest2) num_K then Crash CIndex else
          Ok (mkOut oR (firstn num_K rest2) oC (Some (Fin lv)))
        end
      end
  end.

(* ---- comparison with what the implementation did --------------------------------------------------------------------- *)
Definition qclose12 (a b : Q) : bool :=
  Qeq_bool a b || Qle_bool (Qabs (a - b) * inject_Z (10 ^ 12)) (Qabs b).
Definition xclose12 (a b : xnum) : bool :=
  match a, b with Fin x, Fin y => qclose12 x y | PInf, PInf | NInf, NInf | NaN, NaN => true | _, _ => false end.
Definition oxclose (a b : option xnum) : bool :=
  match a, b with Some x, Some y => xclose12 x y | None, None => true | _, _ => false end.
Fixpoint qlist_close (a b : list Q) : bool :=
  match a, b with [] , [] => true | x :: a', y :: b' => qclose12 x y && qlist_close a' b' | _, _ => false end.
Definition out_close (a b : kkout) : bool :=
  xclose12 (oR a) (oR b) && qlist_close (oK a) (oK b) && oxclose (oC a) (oC b) && oxclose (oL a) (oL b).
Definition outcome_close (a b : outcome kkout) : bool :=
  match a, b with
  | Ok x, Ok y => out_close x y
  | Err e, Err f => errkind_eqb e f
  | Crash c, Crash d => crashkind_eqb c d
  | _, _ => false
  end.

Fixpoint mism {I} (f : I -> outcome kkout) (cases : list (Z * I * outcome kkout)) : list Z :=
  match cases with
  | [] => []
  | (i, x, o) :: r => if outcome_close (f x) o then mism f r else i :: mism f r
  end.

(* An/KK_noise.v — C10, the deterministic skeleton: the noise estimate inverts the expected pseudo chi-squared of the library's own
   noise model.  Definitions regenerated from kramers_kronig/utility.py, analysis/utility.py and mock_data.py. *)
From Coq Require Import Reals List Lra.
From Coquelicot Require Import Coquelicot.
From PV Require Import An.KKBase gen.KK_gen gen.Formulas_gen.
Import ListNotations.
Local Open Scope R_scope.

(* _estimate_pct_noise inverts _estimate_pseudo_chisqr *)
Theorem noise_estimator_inverse n p : 0 < n -> 0 <= p -> kk_estimate_pct_noise n (kk_estimate_chisqr n p) = p.
Proof.
  intros Hn Hp. unfold kk_estimate_pct_noise, kk_estimate_chisqr.
  replace (5000 * (n * (p * p) / 5000) / n) with (p * p) by (field; lra). apply sqrt_square. exact Hp.
Qed.

Theorem noise_estimator_inverse' n c : 0 < n -> 0 <= c -> kk_estimate_chisqr n (kk_estimate_pct_noise n c) = c.
Proof.
  intros Hn Hc. unfold kk_estimate_pct_noise, kk_estimate_chisqr.
  rewrite sqrt_sqrt; [field; lra|]. unfold Rdiv. apply Rmult_le_pos; [lra|]. apply Rlt_le, Rinv_0_lt_compat; auto.
Qed.

(* one point of a spectrum with the library's noise model: sd = noise/100 |Z|, real and imaginary parts disturbed by sd*a and sd*b.
   Its term of the pseudo chi-squared (Boukamp weight) is (noise/100)^2 (a^2 + b^2), whatever Z is *)
Theorem chisqr_term_of_noise_model p zr zi a b : zr * zr + zi * zi <> 0 ->
  let sd := mock_sd p (sqrt (zr * zr + zi * zi)) in
  chisqr_term (boukamp_weight zr zi) zr zi (mock_noisy_re zr sd a) (mock_noisy_im zi sd b) = (p / 100) * (p / 100) * (a * a + b * b).
Proof.
  intros H sd. unfold sd, chisqr_term, boukamp_weight, mock_sd, mock_noisy_re, mock_noisy_im.
  assert (Hpos : 0 < zr * zr + zi * zi).
  { pose proof (Rle_0_sqr zr) as H1. pose proof (Rle_0_sqr zi) as H2. unfold Rsqr in *.
    destruct (Rtotal_order 0 (zr * zr + zi * zi)) as [Hl|[He|Hg]]; auto; [exfalso; apply H; auto|lra]. }
  set (s := sqrt (zr * zr + zi * zi)).
  assert (Hs : s * s = zr * zr + zi * zi) by (apply sqrt_sqrt; lra).
  rewrite <- Hs. assert (Hs0 : s <> 0) by (intro Hc; rewrite Hc in Hs; lra). field. exact Hs0.
Qed.

(* summed over a spectrum of N points whose draws have unit second moments (sum of a^2 + b^2 = 2N), this is exactly the value
   that _estimate_pseudo_chisqr assigns to that noise level: the constant 5000 matches the noise model *)
Definition draws_sum (l : list (R * R)) : R := fold_right (fun ab acc => fst ab * fst ab + snd ab * snd ab + acc) 0 l.

Theorem expected_chisqr_matches_estimator p (draws : list (R * R)) :
  draws_sum draws = 2 * INR (length draws) ->
  (p / 100) * (p / 100) * draws_sum draws = kk_estimate_chisqr (INR (length draws)) p.
Proof. intro H. rewrite H. unfold kk_estimate_chisqr. field. Qed.

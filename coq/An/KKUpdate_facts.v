(* An/KKUpdate_facts.v — the executable models of _update_circuit compute, on a solution vector laid out as
   R :: ks ++ [C]? ++ [L]? whose inverted entries are non-zero, exactly the abstract map [update] used by the theorems of
   An/KK_facts.v (rationals embedded into the reals). *)
From Coq Require Import ZArith QArith Qabs Qreals Reals Bool List Lia.
From PV Require Import Base.Num Base.Outcome An.KKBase An.KK_facts An.KKUpdate.
Import ListNotations.

Record qvars := mkQV { q0 : Q; qk : list Q; qC : option Q; qL : option Q }.

Definition flat (x : qvars) : list Q :=
  q0 x :: qk x ++ (match qC x with Some c => [c] | None => [] end) ++ (match qL x with Some l => [l] | None => [] end).

Definition vars_toR (x : qvars) : vars :=
  mkVars (Q2R (q0 x)) (map Q2R (qk x)) (option_map Q2R (qC x)) (option_map Q2R (qL x)).

Definition xnum_toR (a : xnum) : option R := match a with Fin q => Some (Q2R q) | _ => None end.
Definition oxnum_toR (a : option xnum) : option (option R) :=
  match a with None => Some None | Some x => match xnum_toR x with Some r => Some (Some r) | None => None end end.
Definition out_toR (o : kkout) : option params :=
  match xnum_toR (oR o), oxnum_toR (oC o), oxnum_toR (oL o) with
  | Some r, Some c, Some l => Some (mkParams r (map Q2R (oK o)) c l)
  | _, _, _ => None
  end.

Definition qguard (adm : bool) (x : qvars) : Prop :=
  if adm then ~ q0 x == 0 /\ (forall l, qL x = Some l -> ~ l == 0) else (forall c, qC x = Some c -> ~ c == 0).

Lemma last_opt_app {A} (l : list A) a : last_opt (l ++ [a]) = Some a.
Proof. unfold last_opt. rewrite rev_app_distr. reflexivity. Qed.

Lemma Qeq_bool_false q : ~ q == 0 -> Qeq_bool q 0 = false.
Proof. intro H. destruct (Qeq_bool q 0) eqn:E; auto. apply Qeq_bool_eq in E. contradiction. Qed.

Lemma Q2R_inv' q : ~ q == 0 -> Q2R (/ q) = (/ Q2R q)%R.
Proof. apply Q2R_inv. Qed.

Lemma has_flag {A} (o : option A) : length (match o with Some c => [c] | None => [] end) = if o then 1%nat else 0%nat.
Proof. destruct o; reflexivity. Qed.

Definition isSome {A} (o : option A) : bool := match o with Some _ => true | None => false end.

Theorem ls_update_refines adm x :
  qguard adm x ->
  exists o, ls_update_exec adm (isSome (qC x)) (isSome (qL x)) (length (flat x)) (length (qk x)) (flat x) = Ok o
            /\ out_toR o = Some (update adm (vars_toR x)).
Proof.
  intro Hg. destruct x as [r ks oc ol]. unfold flat, ls_update_exec. cbn [q0 qk qC qL].
  rewrite Nat.eqb_refl. cbn [negb].
  destruct ol as [l|], oc as [c|]; cbn [isSome].
  - (* C and L *)
    replace (ks ++ [c] ++ [l]) with ((ks ++ [c]) ++ [l]) by (rewrite <- app_assoc; reflexivity).
    rewrite removelast_last, last_opt_app. cbn [option_map]. rewrite removelast_last, last_opt_app.
    assert (Hlen : Nat.ltb (length ks) (length ks) = false) by (apply Nat.ltb_irrefl). rewrite Hlen, firstn_all.
    eexists; split; [reflexivity|].
    destruct adm; simpl in Hg; unfold out_toR, update, vars_toR, qinv_or; simpl.
    + destruct Hg as [H0 HL]. pose proof (HL l eq_refl) as Hl. rewrite !Qeq_bool_false by auto. simpl.
      rewrite Q2R_opp, !Q2R_inv' by auto. reflexivity.
    + pose proof (Hg c eq_refl) as Hc. rewrite !Qeq_bool_false by auto. simpl. rewrite Q2R_inv' by auto. reflexivity.
  - (* L only *)
    cbn [app]. rewrite removelast_last, last_opt_app. cbn [option_map].
    assert (Hlen : Nat.ltb (length ks) (length ks) = false) by (apply Nat.ltb_irrefl). rewrite Hlen, firstn_all.
    eexists; split; [reflexivity|].
    destruct adm; simpl in Hg; unfold out_toR, update, vars_toR, qinv_or; simpl.
    + destruct Hg as [H0 HL]. pose proof (HL l eq_refl) as Hl. rewrite !Qeq_bool_false by auto. simpl.
      rewrite Q2R_opp, !Q2R_inv' by auto. reflexivity.
    + reflexivity.
  - (* C only *)
    cbn [app]. rewrite removelast_last, last_opt_app. cbn [option_map].
    assert (Hlen : Nat.ltb (length ks) (length ks) = false) by (apply Nat.ltb_irrefl). rewrite Hlen, firstn_all.
    eexists; split; [reflexivity|].
    destruct adm; simpl in Hg; unfold out_toR, update, vars_toR, qinv_or; simpl.
    + destruct Hg as [H0 HL]. rewrite !Qeq_bool_false by auto. simpl. rewrite !Q2R_inv' by auto. reflexivity.
    + pose proof (Hg c eq_refl) as Hc. rewrite !Qeq_bool_false by auto. simpl. rewrite Q2R_inv' by auto. reflexivity.
  - (* neither *)
    cbn [app]. rewrite app_nil_r. cbn [option_map].
    assert (Hlen : Nat.ltb (length ks) (length ks) = false) by (apply Nat.ltb_irrefl). rewrite Hlen, firstn_all.
    eexists; split; [reflexivity|].
    destruct adm; simpl in Hg; unfold out_toR, update, vars_toR, qinv_or; simpl.
    + destruct Hg as [H0 HL]. rewrite !Qeq_bool_false by auto. simpl. rewrite !Q2R_inv' by auto. reflexivity.
    + reflexivity.
Qed.

(* matrix inversion: the inductance is always present; a zero capacitance variable is replaced by a sentinel, so the guard also
   asks for a non-zero capacitance variable in the admittance representation *)
Theorem mi_update_refines adm x l :
  qL x = Some l -> qguard adm x -> (forall c, qC x = Some c -> ~ c == 0) ->
  exists o, mi_update_exec adm (isSome (qC x)) (length (flat x)) (length (qk x)) (flat x) = Ok o
            /\ out_toR o = Some (update adm (vars_toR x)).
Proof.
  intros HLs Hg HC. destruct x as [r ks oc ol]. simpl in HLs. subst ol. unfold flat, mi_update_exec. cbn [q0 qk qC qL].
  rewrite Nat.eqb_refl. cbn [negb].
  assert (Hlen : Nat.ltb (length ks) (length ks) = false) by (apply Nat.ltb_irrefl).
  destruct oc as [c|]; cbn [isSome].
  - replace (ks ++ [c] ++ [l]) with ((ks ++ [c]) ++ [l]) by (rewrite <- app_assoc; reflexivity).
    rewrite removelast_last, last_opt_app. rewrite removelast_last, last_opt_app. rewrite Hlen, firstn_all.
    eexists; split; [reflexivity|]. pose proof (HC c eq_refl) as Hc. simpl in HC.
    destruct adm; simpl in Hg; unfold out_toR, update, vars_toR; simpl.
    + destruct Hg as [H0 HL]. pose proof (HL l eq_refl) as Hl. rewrite !Qeq_bool_false by auto. simpl.
      rewrite Q2R_opp, !Q2R_inv' by auto. reflexivity.
    + rewrite !Qeq_bool_false by auto. simpl. rewrite Q2R_inv' by auto. reflexivity.
  - cbn [app]. rewrite removelast_last, last_opt_app. rewrite Hlen, firstn_all.
    eexists; split; [reflexivity|].
    destruct adm; simpl in Hg; unfold out_toR, update, vars_toR; simpl.
    + destruct Hg as [H0 HL]. pose proof (HL l eq_refl) as Hl. rewrite !Qeq_bool_false by auto. simpl.
      rewrite Q2R_opp, !Q2R_inv' by auto. reflexivity.
    + reflexivity.
Qed.

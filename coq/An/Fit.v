(* An/Fit.v — bookkeeping of circuit fitting (fitting.py): fit identifiers, the parameters handed to lmfit, writing the
   minimiser's values back into the circuit, and the table of fitted parameters (_extract_parameters with its suffix
   matching).  lmfit's minimiser is an oracle: a map from parameter names to values.  Model only. *)
From Coq Require Import ZArith QArith Bool List.
From PV Require Import Base.Num Base.Outcome Circuit.Tree Circuit.Printer Circuit.Ident.
Import ListNotations.

Record fparam := mkFP { fp_key : str; fp_value : xnum; fp_lo : xnum; fp_hi : xnum; fp_fixed : bool }.
Definition felement := list fparam.          (* in get_values() order *)
Definition fcircuit := list felement.        (* in running-identifier order *)

Definition fit_name (key : str) (i : nat) : str := key ++ [95%N] ++ dec_str i.

(* _to_lmfit: one lmfit parameter per element parameter; ValueError when a value lies outside its limits *)
Record lmpar := mkLM { lm_name : str; lm_value : xnum; lm_min : xnum; lm_max : xnum; lm_vary : bool }.

Definition to_lmfit (c : fcircuit) : outcome (list lmpar) :=
  let pars := flat_map (fun ei => map (fun p => (snd ei, p)) (fst ei)) (combine c (seq 0 (length c))) in
  if forallb (fun ip => xleb (fp_lo (snd ip)) (fp_value (snd ip)) && xleb (fp_value (snd ip)) (fp_hi (snd ip))) pars
  then Ok (map (fun ip => mkLM (fit_name (fp_key (snd ip)) (fst ip)) (fp_value (snd ip)) (fp_lo (snd ip)) (fp_hi (snd ip))
                               (negb (fp_fixed (snd ip)))) pars)
  else Err EValue.

(* the minimiser's result: parameter name -> value *)
Definition lmresult := list (str * xnum).
Fixpoint rget (n : str) (r : lmresult) : option xnum :=
  match r with [] => None | (k, v) :: t => if str_eqb n k then Some v else rget n t end.

(* _from_lmfit: every value found under an element's fit identifier is written into the element *)
Definition from_lmfit (c : fcircuit) (r : lmresult) : fcircuit :=
  map (fun ei => map (fun p => match rget (fit_name (fp_key p) (snd ei)) r with
                               | Some v => mkFP (fp_key p) v (fp_lo p) (fp_hi p) (fp_fixed p)
                               | None => p end) (fst ei))
      (combine c (seq 0 (length c))).

(* str.endswith and str.rsplit("_", 1)[0] *)
Fixpoint starts_with (s pre : str) : bool :=
  match pre, s with
  | [], _ => true
  | p :: pre', c :: s' => N.eqb p c && starts_with s' pre'
  | _ :: _, [] => false
  end.
Definition ends_with (s suf : str) : bool := starts_with (rev s) (rev suf).
Fixpoint drop_through_underscore (rs : str) : str :=          (* on the reversed string *)
  match rs with [] => [] | c :: r => if N.eqb c 95 then r else drop_through_underscore r end.
Definition rsplit_head (s : str) : str :=
  if existsb (N.eqb 95) s then rev (drop_through_underscore (rev s)) else s.

(* _extract_parameters for the element with running identifier i: the variable names ending in "_i" give the
   non-fixed entries (keyed by the name without its last "_..." part); the remaining parameters are reported as fixed with
   the element's current value *)
Record trow := mkRow { tr_key : str; tr_value : xnum; tr_fixed : bool }.

Definition extract_element (i : nat) (e : felement) (var_names : list str) (r : lmresult) : list trow :=
  let suffix := [95%N] ++ dec_str i in
  let varying := flat_map (fun n => if ends_with n suffix
                                    then match rget n r with Some v => [mkRow (rsplit_head n) v false] | None => [] end
                                    else []) var_names in
  (* later entries with the same key overwrite earlier ones in the dict; keys are distinct here *)
  varying ++ flat_map (fun p => if existsb (fun row => str_eqb (tr_key row) (fp_key p)) varying then []
                                else [mkRow (fp_key p) (fp_value p) true]) e.

Definition extract (c : fcircuit) (var_names : list str) (r : lmresult) : list (list trow) :=
  map (fun ei => extract_element (snd ei) (fst ei) var_names r) (combine c (seq 0 (length c))).

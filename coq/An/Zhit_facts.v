(* An/Zhit_facts.v — Z-HIT (C11): the reconstruction formula, the offset fit and the window weights, over definitions regenerated
   from reconstruction.py, offset.py and weights.py (gen/Zhit_gen.v). *)
From Coq Require Import Reals List Lra.
From Coquelicot Require Import Coquelicot.
From PV Require Import Cx.CFun gen.Zhit_gen gen.El_R gen.El_C gen.El_L An.KK_facts.
Import ListNotations.
Local Open Scope R_scope.

(* ---- reconstruction -------------------------------------------------------------------------------------------------------- *)
(* the same formula is applied to impedance and admittance data (the phase handed in is the phase of the chosen immittance) *)
Theorem recon_representation_independent g i d : zhit_recon true g i d = zhit_recon false g i d.
Proof. unfold zhit_recon. unfold Rdiv. ring. Qed.

(* sign and size of the derivative correction *)
Theorem gamma_value : zhit_gamma = - (PI / 6).
Proof. unfold zhit_gamma. field. Qed.

Theorem recon_formula adm i d : zhit_recon adm zhit_gamma i d = 2 / PI * i - PI / 6 * d.
Proof. destruct adm; [rewrite recon_representation_independent|]; unfold zhit_recon, zhit_gamma; field; apply PI_neq0. Qed.

(* a frequency-independent phase phi: the integral from ln w_s to ln w_0 is phi (ln w_0 - ln w_s) and the derivative vanishes *)
Theorem const_phase_reconstruction adm phi lws lw0 :
  zhit_recon adm zhit_gamma (phi * (lw0 - lws)) 0 = 2 * phi / PI * (lw0 - lws).
Proof. rewrite recon_formula. field. apply PI_neq0. Qed.

(* if moreover ln|X| = a + (2 phi / pi) ln w (resistor, capacitor, inductor, constant phase element, Warburg), the reconstruction
   differs from the true ln|X| by the same constant at every frequency ... *)
Theorem const_phase_offset_is_constant adm phi a lws lw0 :
  zhit_recon adm zhit_gamma (phi * (lw0 - lws)) 0 + (a + 2 * phi / PI * lws) = a + 2 * phi / PI * lw0.
Proof. rewrite const_phase_reconstruction. ring. Qed.

(* ---- the offset fit ------------------------------------------------------------------------------------------------------------ *)
(* points: reconstruction r, measured ln|X| m, weight w; lmfit minimises the sum of the squared residual entries *)
Definition pt := (R * R * R)%type.
Definition res_of (o : R) (p : pt) : R := let '(r, m, w) := p in zhit_offset_residual o r m w.
Definition objective (o : R) (pts : list pt) : R := fold_right (fun p acc => res_of o p * res_of o p + acc) 0 pts.

Lemma objective_nonneg o pts : 0 <= objective o pts.
Proof. induction pts as [|p l IH]; simpl; [lra|]. pose proof (Rle_0_sqr (res_of o p)) as H. unfold Rsqr in H. lra. Qed.

Definition weight_of (p : pt) : R := snd p.
Definition exact_up_to (c : R) (pts : list pt) : Prop :=
  List.Forall (fun p => let '(r, m, w) := p in w <> 0 -> m = r + c) pts.

Lemma objective_at_offset c pts : exact_up_to c pts -> objective c pts = 0.
Proof.
  induction 1 as [|[[r m] w] l Hp _ IH]; simpl; [reflexivity|]. rewrite IH.
  unfold zhit_offset_residual. destruct (Req_dec w 0) as [->|Hw]; [ring|]. rewrite (Hp Hw). ring.
Qed.

Lemma objective_zero_forces o c pts :
  exact_up_to c pts -> List.Exists (fun p => weight_of p <> 0) pts -> objective o pts = 0 -> o = c.
Proof.
  intros He Hex H0. induction pts as [|[[r m] w] l IH]; [inversion Hex|].
  inversion He as [|? ? Hp He']; subst. simpl in H0.
  pose proof (objective_nonneg o l) as Hl.
  pose proof (Rle_0_sqr (zhit_offset_residual o r m w)) as Hs. unfold Rsqr in Hs.
  assert (Hr : zhit_offset_residual o r m w * zhit_offset_residual o r m w = 0) by lra.
  assert (Hl0 : objective o l = 0) by lra.
  inversion Hex as [? ? Hw|? ? Hex']; subst.
  - simpl in Hw. unfold weight_of in Hw. simpl in Hw. rewrite (Hp Hw) in Hr. unfold zhit_offset_residual in Hr.
    assert (Hz : w * ((r + o - (r + c)) * (r + o - (r + c))) = 0) by (apply Rmult_integral in Hr; destruct Hr; auto).
    apply Rmult_integral in Hz. destruct Hz as [Hz|Hz]; [contradiction|].
    apply Rmult_integral in Hz. destruct Hz; lra.
  - apply IH; auto.
Qed.

(* ... so the weighted fit returns exactly that constant: it is the unique minimiser of the coded objective *)
Theorem offset_exact_unique c pts :
  exact_up_to c pts -> List.Exists (fun p => weight_of p <> 0) pts ->
  (forall o, objective c pts <= objective o pts) /\ (forall o, objective o pts <= objective c pts -> o = c).
Proof.
  intros He Hex. rewrite (objective_at_offset c pts He). split.
  - intro o. apply objective_nonneg.
  - intros o Ho. apply (objective_zero_forces o c pts He Hex). pose proof (objective_nonneg o pts). lra.
Qed.

(* points with zero weight do not enter the objective: any values may stand there *)
Theorem offset_zero_weight_irrelevant o (pts pts' : list pt) :
  List.Forall2 (fun p q => weight_of p = weight_of q /\ (weight_of p <> 0 -> p = q)) pts pts' ->
  objective o pts = objective o pts'.
Proof.
  induction 1 as [|[[r m] w] [[r' m'] w'] l l' [Hw Hp] _ IH]; simpl; [reflexivity|]. rewrite IH. f_equal.
  unfold weight_of in *. simpl in *. subst w'. destruct (Req_dec w 0) as [->|Hnz].
  - unfold zhit_offset_residual. ring.
  - specialize (Hp Hnz). inversion Hp; subst. reflexivity.
Qed.

(* adding k to every measured ln|X| (multiplying X by e^k) moves the objective's argument by k: the fitted offset, and with it
   the reconstructed modulus, scales with the data *)
Definition shift_measured (k : R) (p : pt) : pt := let '(r, m, w) := p in (r, m + k, w).

Theorem offset_shift_equivariant k o pts : objective (o + k) (map (shift_measured k) pts) = objective o pts.
Proof.
  induction pts as [|[[r m] w] l IH]; simpl; [reflexivity|]. rewrite IH. f_equal.
  unfold zhit_offset_residual. ring.
Qed.

Corollary offset_minimiser_shifts k o pts :
  (forall o', objective o pts <= objective o' pts) ->
  forall o', objective (o + k) (map (shift_measured k) pts) <= objective o' (map (shift_measured k) pts).
Proof.
  intros H o'. rewrite offset_shift_equivariant. replace o' with ((o' - k) + k) by ring. rewrite offset_shift_equivariant. apply H.
Qed.

(* ---- window weights --------------------------------------------------------------------------------------------------------- *)
Theorem weights_in_unit_interval center width lf v : 0 <= zhit_weight center width lf v <= 1.
Proof.
  unfold zhit_weight, zhit_clip.
  destruct (Rlt_dec lf (center - width / 2)); [lra|]. destruct (Rlt_dec (center + width / 2) lf); [lra|].
  destruct (Rlt_dec v 0); [lra|]. destruct (Rlt_dec 1 v); lra.
Qed.

Theorem weights_zero_outside_window center width lf v :
  lf < center - width / 2 \/ center + width / 2 < lf -> zhit_weight center width lf v = 0.
Proof.
  unfold zhit_weight. intros [H|H].
  - destruct (Rlt_dec lf (center - width / 2)); [reflexivity|contradiction].
  - destruct (Rlt_dec lf (center - width / 2)); [reflexivity|]. destruct (Rlt_dec (center + width / 2) lf); [reflexivity|contradiction].
Qed.

(* ---- the three ideal elements have ln|Z| affine in ln w with slope 0, -1, +1 (= 2 phase / pi) -------------------------------- *)
Section Elements.
Variable S : syms.

Lemma Cmod_Ci_scal y : Cmod (Ci * RtoC y)%C = Rabs y.
Proof. rewrite Cmod_mult, Cmod_R. replace (Cmod Ci) with 1; [ring|]. unfold Cmod, Ci. simpl. rewrite <- sqrt_1 at 1. f_equal. ring. Qed.

Theorem resistor_modulus w r : Cmod (R_impl S (fC w) (RtoC r)) = Rabs r.
Proof. rewrite R_term. apply Cmod_R. Qed.

Theorem inductor_ln_modulus w l : 0 < w -> 0 < l -> ln (Cmod (L_impl S (fC w) (RtoC l))) = ln l + 1 * ln w.
Proof.
  intros Hw Hl. rewrite L_term, Cmod_Ci_scal. rewrite Rabs_pos_eq by (apply Rlt_le, Rmult_lt_0_compat; auto).
  rewrite ln_mult by auto. ring.
Qed.

Theorem capacitor_ln_modulus w c : 0 < w -> 0 < c -> ln (Cmod (C_impl S (fC w) (RtoC c))) = - ln c + (-1) * ln w.
Proof.
  intros Hw Hc. rewrite C_term.
  assert (Hnz : (Ci * RtoC (w * c))%C <> 0).
  { intro H. apply (f_equal Cmod) in H. rewrite Cmod_Ci_scal, Cmod_0 in H.
    rewrite Rabs_pos_eq in H by (apply Rlt_le, Rmult_lt_0_compat; auto). pose proof (Rmult_lt_0_compat w c Hw Hc). lra. }
  rewrite Cmod_inv by exact Hnz. rewrite Cmod_Ci_scal. rewrite Rabs_pos_eq by (apply Rlt_le, Rmult_lt_0_compat; auto).
  rewrite ln_Rinv by (apply Rmult_lt_0_compat; auto). rewrite ln_mult by auto. ring.
Qed.
End Elements.

(* ---- smoothing: what leaves constant and linear data unchanged ----------------------------------------------------------- *)
(* a difference stencil applied to the affine sequence a + b (i + j) *)
Fixpoint stencil (cs : list R) (a b : R) (i : R) (j : R) : R :=
  match cs with [] => 0 | c :: r => c * (a + b * (i + j)) + stencil r a b i (j + 1) end.
Fixpoint csum_r (cs : list R) : R := match cs with [] => 0 | c :: r => c + csum_r r end.
Fixpoint cmoment (cs : list R) (j : R) : R := match cs with [] => 0 | c :: r => c * j + cmoment r (j + 1) end.

Lemma stencil_affine cs a b i : forall j, stencil cs a b i j = (a + b * i) * csum_r cs + b * cmoment cs j.
Proof. induction cs as [|c r IH]; intro j; simpl; [ring|]. rewrite IH. ring. Qed.

(* Whittaker-Henderson penalises D y with the difference coefficients of the translated table.  For every penalty order >= 2 an
   affine sequence has D y = 0, so it solves (I + lambda D'D) y = data for data = y: linear (and constant) data pass unchanged *)
Definition annihilates_affine (cs : list R) : Prop := forall a b i, stencil cs a b i 0 = 0.

Theorem whithend_order_ge2_preserves_affine :
  List.Forall annihilates_affine (tl whithend_coeffs).
Proof.
  unfold whithend_coeffs. simpl tl. repeat constructor; intros a b i; rewrite stencil_affine; simpl; ring.
Qed.

(* for any linear operator given by rows that annihilate y, y is a fixed point of y |-> y + lambda D'(D y) *)
Theorem penalty_fixed_point (Dy : list R) (Dt : list R -> R) (lambda y_i : R) :
  List.Forall (fun v => v = 0) Dy -> (forall l, List.Forall (fun v => v = 0) l -> Dt l = 0) -> y_i + lambda * Dt Dy = y_i.
Proof. intros H Hlin. rewrite (Hlin Dy H). ring. Qed.

(* order 1 (polynomial_order = 1) penalises first differences: constants pass, slopes do not — the filter cannot leave linear data
   unchanged with that setting *)
Theorem whithend_order1_refuted :
  match whithend_coeffs with
  | c1 :: _ => (forall a i, stencil c1 a 0 i 0 = 0) /\ (exists a b i, stencil c1 a b i 0 <> 0)
  | [] => False
  end.
Proof.
  unfold whithend_coeffs. split.
  - intros a i. rewrite stencil_affine. simpl. ring.
  - exists 0, 1, 0. rewrite stencil_affine. simpl. lra.
Qed.

Theorem whithend_order_of_degree : whithend_order 1 = 1%nat /\ whithend_order 2 = 2%nat /\ whithend_order 3 = 2%nat /\ whithend_order 4 = 3%nat.
Proof. repeat split; reflexivity. Qed.

(* convolution kernels (modified sinc, Savitzky-Golay interior): a symmetric kernel k_0, k_1..k_n with k_0 + 2 sum k_j = 1 returns
   a + b i on the affine sequence a + b (i + j) *)
Fixpoint sym_apply (ks : list R) (a b i : R) (j : R) : R :=
  match ks with [] => 0 | k :: r => k * ((a + b * (i + j)) + (a + b * (i - j))) + sym_apply r a b i (j + 1) end.

Theorem symmetric_unit_kernel_preserves_affine k0 ks a b i :
  k0 + 2 * csum_r ks = 1 -> k0 * (a + b * i) + sym_apply ks a b i 1 = a + b * i.
Proof.
  intro H. assert (E : forall l j, sym_apply l a b i j = 2 * (a + b * i) * csum_r l).
  { induction l as [|k r IH]; intro j; simpl; [ring|]. rewrite IH. ring. }
  rewrite E. replace (k0 * (a + b * i) + 2 * (a + b * i) * csum_r ks) with ((a + b * i) * (k0 + 2 * csum_r ks)) by ring.
  rewrite H. ring.
Qed.

(* An/KK_facts.v — the linear Kramers-Kronig tests reproduce a spectrum of their own model (C07) and are equivariant under
   rescaling of impedances and frequencies (C09).  All column and right-hand-side definitions come from gen/KK_gen.v, regenerated
   from least_squares.py / matrix_inversion.py / utility.py at every run; the element impedances are the generated K_impl,
   Ky_impl, R_impl, C_impl, L_impl of C02; a series connection adds impedances and a parallel one adds admittances (C01). *)
From Coq Require Import Reals Bool List Lra.
From Coquelicot Require Import Coquelicot.
From PV Require Import Cx.CFun An.KKBase gen.KK_gen gen.El_R gen.El_C gen.El_L gen.El_K gen.El_Ky.
Import ListNotations.
Local Open Scope R_scope.

(* ---- complex helpers ------------------------------------------------------------------------------------ *)
Lemma Ceq (a b : C) : Re a = Re b -> Im a = Im b -> a = b.
Proof. destruct a, b; simpl; intros -> ->; reflexivity. Qed.

Lemma Re_plus a b : Re (a + b)%C = Re a + Re b. Proof. reflexivity. Qed.
Lemma Im_plus a b : Im (a + b)%C = Im a + Im b. Proof. reflexivity. Qed.
Lemma Re_scal (r : R) (c : C) : Re (RtoC r * c)%C = r * Re c. Proof. destruct c; simpl; ring. Qed.
Lemma Im_scal (r : R) (c : C) : Im (RtoC r * c)%C = r * Im c. Proof. destruct c; simpl; ring. Qed.

Lemma Cinv_inv_total (z : C) : (/ / z)%C = z.
Proof.
  destruct z as [a b]. destruct (Req_dec (a ^ 2 + b ^ 2) 0) as [H|H].
  - assert (a = 0 /\ b = 0) as [-> ->] by (split; nra).
    assert (E : Cinv (0, 0) = (0, 0)) by (unfold Cinv; simpl; f_equal; unfold Rdiv; ring).
    rewrite E, E. reflexivity.
  - unfold Cinv; simpl. apply Ceq; simpl; field; intro Hc; apply H; nra.
Qed.

(* the frequency handed to an element whose angular frequency is w *)
Definition fC (w : R) : C := RtoC (w / (2 * PI)).

Lemma two_pi_f w : (cz 2 * cpi * fC w)%C = RtoC w.
Proof. unfold cz, cpi, fC. apply Ceq; simpl; field; apply PI_neq0. Qed.

(* ---- the model immittance: terms ---------------------------------------------------------------------------- *)
Section Terms.
Variable S : syms.

Lemma R_term w r : R_impl S (fC w) (RtoC r) = RtoC r.
Proof. unfold R_impl, cz. apply Ceq; simpl; ring. Qed.

Lemma K_term w r tau : K_impl S (fC w) (RtoC r) (RtoC tau) = (RtoC r * ls_kth false w tau)%C.
Proof.
  unfold K_impl, ls_kth.
  replace (Ci * cz 2 * cpi * fC w * RtoC tau)%C with (Ci * RtoC w * RtoC tau)%C
    by (rewrite <- (two_pi_f w); ring).
  unfold cz, Cdiv. ring.
Qed.

Lemma Ky_term w c tau : (/ Ky_impl S (fC w) (RtoC c) (RtoC tau))%C = (RtoC c * ls_kth true w tau)%C.
Proof.
  unfold Ky_impl, ls_kth. cbv zeta. rewrite (two_pi_f w).
  unfold Cdiv at 1. unfold cz. rewrite Cmult_1_l. rewrite Cinv_inv_total.
  unfold Cdiv. replace (RtoC (w * tau)) with (RtoC w * RtoC tau)%C by (apply Ceq; simpl; ring). ring.
Qed.

Lemma L_term w l : L_impl S (fC w) (RtoC l) = (Ci * RtoC (w * l))%C.
Proof.
  unfold L_impl. replace (RtoC l * Ci * cz 2 * cpi * fC w)%C with (RtoC l * Ci * (cz 2 * cpi * fC w))%C by ring.
  rewrite two_pi_f. apply Ceq; simpl; ring.
Qed.

Lemma C_term w c : C_impl S (fC w) (RtoC c) = (/ (Ci * RtoC (w * c)))%C.
Proof.
  unfold C_impl. replace (Ci * cz 2 * cpi * fC w * RtoC c)%C with (Ci * (cz 2 * cpi * fC w) * RtoC c)%C by ring.
  rewrite two_pi_f. unfold Cdiv, cz. rewrite Cmult_1_l. f_equal. apply Ceq; simpl; ring.
Qed.

Lemma Re_inv_iy y : Re (/ (Ci * RtoC y))%C = 0.
Proof. unfold Cinv; simpl. unfold Rdiv. ring. Qed.
Lemma Im_inv_iy y : y <> 0 -> Im (/ (Ci * RtoC y))%C = - / y.
Proof. intro H. unfold Cinv; simpl. field. auto. Qed.
Lemma Re_iy y : Re (Ci * RtoC y)%C = 0. Proof. simpl; ring. Qed.
Lemma Im_iy y : Im (Ci * RtoC y)%C = y. Proof. simpl; ring. Qed.
End Terms.

(* ---- variables, parameters and the model --------------------------------------------------------------------- *)
(* the unknowns of the linear system in the order of the columns: R, one per time constant, [C], [L] *)
Record vars := mkVars { v0 : R; vk : list R; vC : option R; vL : option R }.
(* the parameters of the model circuit: R, (R_k or C_k), [C], [L] *)
Record params := mkParams { pR : R; pk : list R; pC : option R; pL : option R }.

(* _update_circuit, as a map from variables to parameters (the executable model of it, with its special cases for zeros, is
   An/KKUpdate.v, checked against both implementations) *)
Definition update (admittance : bool) (x : vars) : params :=
  if admittance
  then mkParams (/ v0 x) (vk x) (vC x) (option_map (fun l => - / l) (vL x))
  else mkParams (v0 x) (vk x) (option_map (fun c => / c) (vC x)) (vL x).

Definition oterm {A} (o : option A) (f : A -> C) : C := match o with Some a => f a | None => RtoC 0 end.
Fixpoint csum (l : list C) : C := match l with [] => RtoC 0 | a :: r => (a + csum r)%C end.
Fixpoint zip {A B} (a : list A) (b : list B) : list (A * B) :=
  match a, b with x :: a', y :: b' => (x, y) :: zip a' b' | _, _ => [] end.

(* impedance of Series[R, K..., C, L] resp. admittance of Parallel[R, Ky..., C, L] at angular frequency w *)
Definition model (S : syms) (admittance : bool) (taus : list R) (p : params) (w : R) : C :=
  if admittance
  then (/ R_impl S (fC w) (RtoC (pR p))
        + csum (map (fun kt => / Ky_impl S (fC w) (RtoC (fst kt)) (RtoC (snd kt))) (zip (pk p) taus))
        + oterm (pC p) (fun c => / C_impl S (fC w) (RtoC c))
        + oterm (pL p) (fun l => / L_impl S (fC w) (RtoC l)))%C
  else (R_impl S (fC w) (RtoC (pR p))
        + csum (map (fun kt => K_impl S (fC w) (RtoC (fst kt)) (RtoC (snd kt))) (zip (pk p) taus))
        + oterm (pC p) (fun c => C_impl S (fC w) (RtoC c))
        + oterm (pL p) (fun l => L_impl S (fC w) (RtoC l)))%C.

Definition oreal (o : option R) (f : R -> R) : R := match o with Some a => f a | None => 0 end.
Fixpoint rsum (l : list R) : R := match l with [] => 0 | a :: r => a + rsum r end.

(* which part of the immittance a row of the least-squares system describes *)
Definition part (t : test) (half : bool) (z : C) : R :=
  match t with TComplex => if half then Im z else Re z | TReal => Re z | TImag => Im z end.

(* one row of A (least_squares.py) applied to x *)
Definition ls_row (t : test) (half admittance : bool) (taus : list R) (w : R) (x : vars) : R :=
  ls_col_R t half * v0 x
  + rsum (map (fun kt => ls_col_K t half admittance w (snd kt) * fst kt) (zip (vk x) taus))
  + oreal (vC x) (fun c => ls_col_C t half admittance w * c)
  + oreal (vL x) (fun l => ls_col_L t half admittance w * l).

(* the variables whose reciprocal is a parameter must not vanish (the code replaces them by inf / a sentinel there) *)
Definition guard (admittance : bool) (x : vars) : Prop :=
  if admittance then v0 x <> 0 /\ (forall l, vL x = Some l -> l <> 0) else (forall c, vC x = Some c -> c <> 0).

Lemma part_plus t h a b : part t h (a + b)%C = part t h a + part t h b.
Proof. destruct t, h; reflexivity. Qed.
Lemma part_scal t h r c : part t h (RtoC r * c)%C = r * part t h c.
Proof. destruct t, h; simpl part; try apply Re_scal; apply Im_scal. Qed.
Lemma part_0 t h : part t h (RtoC 0) = 0.
Proof. destruct t, h; reflexivity. Qed.

Lemma part_csum t h (f : R * R -> C) (g : R * R -> R) l :
  (forall kt, part t h (f kt) = g kt) -> part t h (csum (map f l)) = rsum (map g l).
Proof. intro H. induction l as [|a l IH]; simpl; [apply part_0|]. rewrite part_plus, H, IH. reflexivity. Qed.

Lemma ls_col_K_part t h adm w tau : ls_col_K t h adm w tau = part t h (ls_kth adm w tau).
Proof. destruct t, h; reflexivity. Qed.

Lemma part_real t h r : part t h (RtoC r) = ls_col_R t h * r.
Proof. destruct t, h; simpl; ring. Qed.

(* the design matrix of least_squares.py describes the model circuit after _update_circuit:
   row . x = the corresponding part of the model's immittance *)
Theorem ls_design_consistent (S : syms) t h adm taus w x :
  w <> 0 -> guard adm x ->
  ls_row t h adm taus w x = part t h (model S adm taus (update adm x) w).
Proof.
  intros Hw Hg. unfold ls_row, model. destruct adm; simpl update; cbn [pR pk pC pL].
  - destruct Hg as [H0 HL]. rewrite !part_plus. f_equal; [f_equal; [f_equal|]|].
    + rewrite R_term. replace (/ RtoC (/ v0 x))%C with (RtoC (v0 x)).
      * apply eq_sym, part_real.
      * apply Ceq; simpl; field; auto.
    + apply eq_sym, part_csum. intros [k tau]. simpl fst; simpl snd. rewrite Ky_term, part_scal, ls_col_K_part. ring.
    + destruct (vC x) as [c|]; simpl; [|apply eq_sym, part_0].
      rewrite C_term, Cinv_inv_total. destruct t, h; simpl; ring.
    + destruct (vL x) as [l|] eqn:El; simpl; [|apply eq_sym, part_0].
      pose proof (HL l eq_refl) as Hl. rewrite L_term.
      assert (Hnz : w * - / l <> 0).
      { apply Rmult_integral_contrapositive; split; auto. apply Ropp_neq_0_compat, Rinv_neq_0_compat; auto. }
      destruct t, h; unfold part; rewrite ?Re_inv_iy, ?Im_inv_iy by exact Hnz; simpl; try ring; field; split; auto.
  - rewrite !part_plus. f_equal; [f_equal; [f_equal|]|].
    + rewrite R_term. apply eq_sym, part_real.
    + apply eq_sym, part_csum. intros [k tau]. simpl fst; simpl snd. rewrite K_term, part_scal, ls_col_K_part. ring.
    + destruct (vC x) as [c|] eqn:Ec; simpl; [|apply eq_sym, part_0].
      pose proof (Hg c Ec) as Hc. rewrite C_term.
      assert (Hnz : w * / c <> 0).
      { apply Rmult_integral_contrapositive; split; auto. apply Rinv_neq_0_compat; auto. }
      destruct t, h; unfold part; rewrite ?Re_inv_iy, ?Im_inv_iy by exact Hnz; simpl; try ring; field; split; auto.
    + destruct (vL x) as [l|]; simpl; [|apply eq_sym, part_0].
      rewrite L_term. destruct t, h; simpl; ring.
Qed.

(* ---- least squares: an exactly solvable system is solved exactly by every minimiser ------------------------------ *)
Section LeastSquares.
Variable X : Type.
Definition rowsys := list ((X -> R) * R).
Definition ssq (rows : rowsys) (x : X) : R := rsum (map (fun rb => (fst rb x - snd rb) * (fst rb x - snd rb)) rows).
Definition minimiser (rows : rowsys) (x : X) : Prop := forall y, ssq rows x <= ssq rows y.
Definition solves (rows : rowsys) (x : X) : Prop := List.Forall (fun rb => fst rb x = snd rb) rows.

Lemma ssq_nonneg rows x : 0 <= ssq rows x.
Proof. unfold ssq. induction rows as [|rb r IH]; simpl; [lra|]. pose proof (Rle_0_sqr (fst rb x - snd rb)) as H. unfold Rsqr in H. lra. Qed.

Lemma ssq_zero_solves rows x : ssq rows x = 0 -> solves rows x.
Proof.
  unfold ssq, solves. induction rows as [|rb r IH]; simpl; intro H; constructor.
  - pose proof (Rle_0_sqr (fst rb x - snd rb)) as H1. unfold Rsqr in H1. pose proof (ssq_nonneg r x) as H2. unfold ssq in H2. nra.
  - apply IH. pose proof (Rle_0_sqr (fst rb x - snd rb)) as H1. unfold Rsqr in H1. pose proof (ssq_nonneg r x) as H2. unfold ssq in H2. lra.
Qed.

Lemma solves_ssq_zero rows x : solves rows x -> ssq rows x = 0.
Proof. unfold ssq, solves. induction 1 as [|rb r H _ IH]; simpl; auto. rewrite H, IH. ring. Qed.

Theorem exact_system_solved_by_minimiser rows xstar x : solves rows xstar -> minimiser rows x -> solves rows x.
Proof.
  intros Hs Hm. apply ssq_zero_solves. pose proof (Hm xstar) as H. rewrite (solves_ssq_zero _ _ Hs) in H.
  pose proof (ssq_nonneg rows x). lra.
Qed.

Theorem exact_system_recovers rows xstar x :
  (forall a b, List.Forall (fun rb => fst rb a = fst rb b) rows -> a = b) ->
  solves rows xstar -> minimiser rows x -> x = xstar.
Proof.
  intros Hinj Hs Hm. apply Hinj. pose proof (exact_system_solved_by_minimiser _ _ _ Hs Hm) as Hx.
  unfold solves in *. rewrite List.Forall_forall in *. intros rb Hin. rewrite (Hx rb Hin), (Hs rb Hin). reflexivity.
Qed.
End LeastSquares.
Arguments ssq {X}. Arguments minimiser {X}. Arguments solves {X}.

(* ---- least_squares.py: the system of a test over a spectrum --------------------------------------------------- *)
Definition halves (t : test) : list bool := match t with TComplex => [false; true] | _ => [false] end.

(* points are (angular frequency, measured impedance) *)
Definition ls_system (t : test) (adm : bool) (taus : list R) (pts : list (R * C)) : rowsys vars :=
  flat_map (fun wz => map (fun h => (ls_row t h adm taus (fst wz), ls_b t h adm (snd wz))) (halves t)) pts.

Lemma ls_b_part t h adm Z : ls_b t h adm Z = part t h (imm adm Z).
Proof. destruct t, h; reflexivity. Qed.

(* the spectrum was generated by the model with variables xstar *)
Definition generated (S : syms) (adm : bool) (taus : list R) (xstar : vars) (pts : list (R * C)) : Prop :=
  List.Forall (fun wz => fst wz <> 0 /\ imm adm (snd wz) = model S adm taus (update adm xstar) (fst wz)) pts.

Lemma generated_solves S t adm taus xstar pts :
  guard adm xstar -> generated S adm taus xstar pts -> solves (ls_system t adm taus pts) xstar.
Proof.
  intros Hg Hgen. unfold solves, ls_system. apply List.Forall_forall. intros rb Hin.
  apply in_flat_map in Hin. destruct Hin as ([w Z] & Hp & Hin). apply in_map_iff in Hin. destruct Hin as (h & <- & _).
  unfold generated in Hgen. rewrite List.Forall_forall in Hgen. destruct (Hgen _ Hp) as [Hw HZ]. simpl in *.
  rewrite ls_b_part, HZ. apply ls_design_consistent; auto.
Qed.

(* C07, least squares: every minimiser reproduces the fitted part of the immittance exactly, and returns the generating
   variables when the design matrix has full column rank *)
Theorem ls_exact S t adm taus xstar pts x :
  guard adm xstar -> generated S adm taus xstar pts -> minimiser (ls_system t adm taus pts) x ->
  solves (ls_system t adm taus pts) x
  /\ ((forall a b, List.Forall (fun rb => fst rb a = fst rb b) (ls_system t adm taus pts) -> a = b) -> x = xstar).
Proof.
  intros Hg Hgen Hm. pose proof (generated_solves S t adm taus xstar pts Hg Hgen) as Hs. split.
  - eapply exact_system_solved_by_minimiser; eauto.
  - intro Hinj. eapply exact_system_recovers; eauto.
Qed.

(* hence, for the complex test, the fitted circuit has the measured impedance at every frequency *)
Corollary ls_complex_reproduces S adm taus xstar pts x :
  guard adm xstar -> generated S adm taus xstar pts -> minimiser (ls_system TComplex adm taus pts) x ->
  (forall a b, List.Forall (fun rb => fst rb a = fst rb b) (ls_system TComplex adm taus pts) -> a = b) ->
  List.Forall (fun wz => imm adm (model S adm taus (update adm x) (fst wz)) = snd wz) pts.
Proof.
  intros Hg Hgen Hm Hinj. destruct (ls_exact S TComplex adm taus xstar pts x Hg Hgen Hm) as [_ Hx]. rewrite (Hx Hinj).
  unfold generated in Hgen. rewrite List.Forall_forall in *. intros [w Z] Hin. destruct (Hgen _ Hin) as [_ HZ]. simpl in *.
  rewrite <- HZ. destruct adm; simpl; [apply Cinv_inv_total|reflexivity].
Qed.

(* real test, second stage: the imaginary part left over by the circuit without C and L is exactly the C and L columns *)
Definition without_CL (x : vars) : vars := mkVars (v0 x) (vk x) None None.

Theorem ls_real_second_stage S adm taus w x :
  w <> 0 -> guard adm x ->
  Im (model S adm taus (update adm x) w) - Im (model S adm taus (update adm (without_CL x)) w)
  = oreal (vC x) (fun c => ls_real2_col_C adm w * c) + oreal (vL x) (fun l => ls_real2_col_L adm w * l).
Proof.
  intros Hw Hg.
  assert (Hg' : guard adm (without_CL x)).
  { destruct adm; simpl in *; [destruct Hg; split; auto|]; intros ? Hd; discriminate. }
  pose proof (ls_design_consistent S TImag false adm taus w x Hw Hg) as H1.
  pose proof (ls_design_consistent S TImag false adm taus w (without_CL x) Hw Hg') as H2.
  simpl part in H1, H2. rewrite <- H1, <- H2. unfold ls_row, without_CL. simpl. unfold ls_real2_col_C, ls_real2_col_L.
  destruct adm; simpl; ring.
Qed.

(* and the real part does not depend on C and L at all, so the first stage sees the same right-hand side *)
Theorem ls_real_first_stage S adm taus w x :
  w <> 0 -> guard adm x ->
  Re (model S adm taus (update adm x) w) = Re (model S adm taus (update adm (without_CL x)) w).
Proof.
  intros Hw Hg.
  assert (Hg' : guard adm (without_CL x)).
  { destruct adm; simpl in *; [destruct Hg; split; auto|]; intros ? Hd; discriminate. }
  pose proof (ls_design_consistent S TReal false adm taus w x Hw Hg) as H1.
  pose proof (ls_design_consistent S TReal false adm taus w (without_CL x) Hw Hg') as H2.
  simpl part in H1, H2. rewrite <- H1, <- H2. unfold ls_row, without_CL. simpl.
  destruct (vC x), (vL x); simpl; ring.
Qed.

(* imaginary test: the resistance is the weighted mean of the real-part difference, which is constant for a model spectrum *)
Theorem weighted_mean_of_constant (wts : list R) (c : R) :
  rsum wts <> 0 -> rsum (map (fun wt => wt * c) wts) / rsum wts = c.
Proof.
  intro H. assert (E : rsum (map (fun wt => wt * c) wts) = rsum wts * c).
  { clear H. induction wts as [|a l IH]; simpl; [ring|]. rewrite IH. ring. }
  rewrite E. field. auto.
Qed.

(* ---- column order ----------------------------------------------------------------------------------------------- *)
(* [update] and the rows above read the variables as R, one per time constant, [C], [L]; this is the order in which the
   two implementations lay out their columns *)
Lemma ls_layout : ls_order = [ColR; ColK; ColC; ColL] /\ ls_kth_start = 1%nat /\ ls_R_index = 0%nat.
Proof. repeat split; reflexivity. Qed.
Lemma mi_layout : mi_pos_R = PIdx 0 /\ mi_kth_offset = 1%nat /\ mi_pos_C = PEnd 2 /\ mi_pos_L = PEnd 1.
Proof. repeat split; reflexivity. Qed.

(* ---- matrix_inversion.py ------------------------------------------------------------------------------------------ *)
(* rows of A_re and A_im after _scale_A_matrices, s = |X_exp| at that frequency; A_re has zeros in the C and L columns and A_im
   has zeros in the R column (zeros() initialisation; only the assignments translated above write to the matrices) *)
Definition mi_row_re (adm : bool) (taus : list R) (w s : R) (x : vars) : R :=
  mi_scale mi_col_R_re s * v0 x
  + rsum (map (fun kt => mi_scale (mi_col_K_re adm w (snd kt)) s * fst kt) (zip (vk x) taus)).
Definition mi_row_im (adm : bool) (taus : list R) (w s : R) (x : vars) : R :=
  rsum (map (fun kt => mi_scale (mi_col_K_im adm w (snd kt)) s * fst kt) (zip (vk x) taus))
  + oreal (vC x) (fun c => mi_scale (mi_col_C_im adm w) s * c)
  + oreal (vL x) (fun l => mi_scale (mi_col_L_im adm w) s * l).

Lemma mi_col_K_re_ls adm w tau : mi_col_K_re adm w tau = Re (ls_kth adm w tau).
Proof.
  destruct adm; [|reflexivity]. unfold mi_col_K_re, ls_kth. simpl. field. nra.
Qed.
Lemma mi_col_K_im_ls adm w tau : mi_col_K_im adm w tau = Im (ls_kth adm w tau).
Proof.
  destruct adm; [|reflexivity]. unfold mi_col_K_im, ls_kth. simpl. field. nra.
Qed.

Lemma rsum_scaled (a : R * R -> R) (s : R) l :
  rsum (map (fun kt => mi_scale (a kt) s * fst kt) l) = rsum (map (fun kt => a kt * fst kt) l) / s.
Proof. induction l as [|y l IH]; simpl; [unfold Rdiv; ring|]. rewrite IH. unfold mi_scale, Rdiv. ring. Qed.

Lemma mi_row_re_ls adm taus w s x : mi_row_re adm taus w s x = ls_row TReal false adm taus w (without_CL x) / s.
Proof.
  unfold mi_row_re, ls_row, without_CL. cbn [v0 vk vC vL oreal ls_col_R].
  rewrite (rsum_scaled (fun kt => mi_col_K_re adm w (snd kt))). unfold mi_scale, mi_col_R_re, Rdiv.
  replace (map (fun kt : R * R => ls_col_K TReal false adm w (snd kt) * fst kt) (zip (vk x) taus))
    with (map (fun kt : R * R => mi_col_K_re adm w (snd kt) * fst kt) (zip (vk x) taus)).
  - ring.
  - apply map_ext. intros [k tau]. simpl. rewrite mi_col_K_re_ls. reflexivity.
Qed.

Lemma mi_row_im_ls adm taus w s x : mi_row_im adm taus w s x = ls_row TImag false adm taus w x / s.
Proof.
  unfold mi_row_im, ls_row. cbn [ls_col_R].
  rewrite (rsum_scaled (fun kt => mi_col_K_im adm w (snd kt))).
  replace (map (fun kt : R * R => ls_col_K TImag false adm w (snd kt) * fst kt) (zip (vk x) taus))
    with (map (fun kt : R * R => mi_col_K_im adm w (snd kt) * fst kt) (zip (vk x) taus))
    by (apply map_ext; intros [k tau]; simpl; rewrite mi_col_K_im_ls; reflexivity).
  unfold mi_scale, mi_col_C_im, mi_col_L_im, ls_col_C, ls_col_L, Rdiv.
  destruct (vC x), (vL x); simpl; ring.
Qed.

(* the scaled rows applied to x are the real and imaginary parts of the model immittance divided by |X_exp| *)
Theorem mi_design_consistent S adm taus w s x :
  w <> 0 -> guard adm x ->
  mi_row_re adm taus w s x = Re (model S adm taus (update adm x) w) / s
  /\ mi_row_im adm taus w s x = Im (model S adm taus (update adm x) w) / s.
Proof.
  intros Hw Hg. rewrite mi_row_re_ls, mi_row_im_ls. split; f_equal.
  - rewrite (ls_real_first_stage S adm taus w x Hw Hg).
    assert (Hg' : guard adm (without_CL x)).
    { destruct adm; simpl in *; [destruct Hg; split; auto|]; intros ? Hd; discriminate. }
    apply (ls_design_consistent S TReal false adm taus w (without_CL x) Hw Hg').
  - apply (ls_design_consistent S TImag false adm taus w x Hw Hg).
Qed.

(* the stacked system of the complex test (its normal equations are what _complex_test solves) and the systems of the real and
   imaginary tests (pinv) *)
Definition mi_system (t : test) (adm : bool) (taus : list R) (pts : list (R * C)) : rowsys vars :=
  flat_map (fun wz => let X := imm adm (snd wz) in
                      match t with
                      | TComplex => [(mi_row_re adm taus (fst wz) (Cmod X), mi_b_re X); (mi_row_im adm taus (fst wz) (Cmod X), mi_b_im X)]
                      | TReal => [(mi_row_re adm taus (fst wz) (Cmod X), mi_b_re X)]
                      | TImag => [(mi_row_im adm taus (fst wz) (Cmod X), mi_b_im X)]
                      end) pts.

Lemma mi_generated_solves S t adm taus xstar pts :
  guard adm xstar -> generated S adm taus xstar pts -> solves (mi_system t adm taus pts) xstar.
Proof.
  intros Hg Hgen. unfold solves, mi_system. apply List.Forall_forall. intros rb Hin.
  apply in_flat_map in Hin. destruct Hin as ([w Z] & Hp & Hin).
  unfold generated in Hgen. rewrite List.Forall_forall in Hgen. destruct (Hgen _ Hp) as [Hw HZ]. simpl in *.
  destruct (mi_design_consistent S adm taus w (Cmod (imm adm Z)) xstar Hw Hg) as [Hre Him].
  unfold mi_b_re, mi_b_im. rewrite HZ in *.
  destruct t; simpl in Hin; repeat (destruct Hin as [<-|Hin]; [simpl; assumption|]); contradiction.
Qed.

(* C07, matrix inversion *)
Theorem mi_exact S t adm taus xstar pts x :
  guard adm xstar -> generated S adm taus xstar pts -> minimiser (mi_system t adm taus pts) x ->
  solves (mi_system t adm taus pts) x
  /\ ((forall a b, List.Forall (fun rb => fst rb a = fst rb b) (mi_system t adm taus pts) -> a = b) -> x = xstar).
Proof.
  intros Hg Hgen Hm. pose proof (mi_generated_solves S t adm taus xstar pts Hg Hgen) as Hs. split.
  - eapply exact_system_solved_by_minimiser; eauto.
  - intro Hinj. eapply exact_system_recovers; eauto.
Qed.

(* the second stage of the real test uses the same two columns as least squares *)
Lemma mi_real2_cols adm w : mi_real2_col_C adm w = ls_real2_col_C adm w /\ mi_real2_col_L adm w = ls_real2_col_L adm w.
Proof. split; reflexivity. Qed.

(* non-vacuity: every choice of variables, time constants and non-zero frequencies yields a generated spectrum *)
Lemma generated_exists S adm taus xstar ws :
  List.Forall (fun w => w <> 0) ws ->
  generated S adm taus xstar (map (fun w => (w, imm adm (model S adm taus (update adm xstar) w))) ws).
Proof.
  intro H. unfold generated. apply List.Forall_forall. intros [w Z] Hin. apply in_map_iff in Hin.
  destruct Hin as (w' & Heq & Hin). inversion Heq; subst. rewrite List.Forall_forall in H. split; [apply H; auto|].
  simpl. destruct adm; simpl; [apply Cinv_inv_total|reflexivity].
Qed.

(* An/KKBase.v — vocabulary shared by the generated Kramers-Kronig design-matrix entries (gen/KK_gen.v) and the facts about
   them: the three linear tests, the immittance representation, column kinds and positions. *)
From Coq Require Import Reals Bool List.
From Coquelicot Require Import Coquelicot.
Import ListNotations.

Inductive test := TComplex | TReal | TImag.
Inductive colkind := ColR | ColK | ColC | ColL.
(* a column position as written in the source: a non-negative index or an index counted from the end *)
Inductive colpos := PIdx (n : nat) | PEnd (n : nat).

(* X ** (-1 if admittance else 1) *)
Definition imm (admittance : bool) (z : C) : C := if admittance then Cinv z else z.

(* An/KK_scale.v — C09: the linear Kramers-Kronig tests are equivariant under a positive rescaling of all impedances, a
   positive rescaling of all frequencies, and any reordering of the points.  Same generated definitions as An/KK_facts.v. *)
From Coq Require Import Reals Bool List Lra Permutation.
From Coquelicot Require Import Coquelicot.
From PV Require Import Cx.CFun An.KKBase gen.KK_gen gen.Formulas_gen An.KK_facts.
Import ListNotations.
Local Open Scope R_scope.

(* ---- transferring minimisers along a bijection that rescales the objective ------------------------------------------ *)
Lemma minimiser_transfer {X} (rows rows' : rowsys X) (phi psi : X -> X) (c : R) :
  0 < c -> (forall y, phi (psi y) = y) -> (forall y, ssq rows' (phi y) = c * ssq rows y) ->
  forall x, minimiser rows x -> minimiser rows' (phi x).
Proof.
  intros Hc Hinv Hrel x Hm y'. rewrite <- (Hinv y'), !Hrel. apply Rmult_le_compat_l; [lra|]. apply Hm.
Qed.

(* systems built point by point: if every row residual is multiplied by d, the sum of squares is multiplied by d^2 *)
Lemma ssq_pointwise {X P} (mk mk' : P -> rowsys X) (tp : P -> P) (phi : X -> X) (d : R) (pts : list P) :
  (forall p y, ssq (mk' (tp p)) (phi y) = d * d * ssq (mk p) y) ->
  forall y, ssq (flat_map mk' (map tp pts)) (phi y) = d * d * ssq (flat_map mk pts) y.
Proof.
  intros H y. induction pts as [|p l IH]; simpl; [unfold ssq; simpl; ring|].
  unfold ssq in *. rewrite !map_app. 
  assert (Happ : forall a b : list R, rsum (a ++ b) = rsum a + rsum b) by (induction a; simpl; intros; [ring|rewrite IHa; ring]).
  rewrite !Happ, IH. rewrite (H p y). ring.
Qed.

(* ---- scaling of the variables -------------------------------------------------------------------------------------- *)
Definition vscale (c : R) (x : vars) : vars :=
  mkVars (c * v0 x) (map (Rmult c) (vk x)) (option_map (Rmult c) (vC x)) (option_map (Rmult c) (vL x)).

Lemma vars_eq a b : v0 a = v0 b -> vk a = vk b -> vC a = vC b -> vL a = vL b -> a = b.
Proof. destruct a, b; simpl; intros -> -> -> ->; reflexivity. Qed.

Lemma vscale_inv c x : c <> 0 -> vscale c (vscale (/ c) x) = x.
Proof.
  intro Hc. apply vars_eq; simpl.
  - field; auto.
  - rewrite map_map. rewrite <- (map_id (vk x)) at 2. apply map_ext. intro a. field; auto.
  - destruct (vC x); simpl; auto. f_equal. field; auto.
  - destruct (vL x); simpl; auto. f_equal. field; auto.
Qed.

Lemma rsum_zip_scale c (g : R -> R) ks : forall taus,
  rsum (map (fun kt => g (snd kt) * fst kt) (zip (map (Rmult c) ks) taus))
  = c * rsum (map (fun kt => g (snd kt) * fst kt) (zip ks taus)).
Proof.
  induction ks as [|k ks IH]; intros [|tau taus]; simpl; try ring. rewrite IH. ring.
Qed.

(* rows are linear *)
Lemma ls_row_scale t h adm taus w c x : ls_row t h adm taus w (vscale c x) = c * ls_row t h adm taus w x.
Proof.
  unfold ls_row, vscale. cbn [v0 vk vC vL].
  rewrite (rsum_zip_scale c (fun tau => ls_col_K t h adm w tau)).
  destruct (vC x), (vL x); simpl; ring.
Qed.

Lemma mi_row_re_scale adm taus w s c x : mi_row_re adm taus w s (vscale c x) = c * mi_row_re adm taus w s x.
Proof.
  unfold mi_row_re, vscale. cbn [v0 vk vC vL].
  rewrite (rsum_zip_scale c (fun tau => mi_scale (mi_col_K_re adm w tau) s)). ring.
Qed.
Lemma mi_row_im_scale adm taus w s c x : mi_row_im adm taus w s (vscale c x) = c * mi_row_im adm taus w s x.
Proof.
  unfold mi_row_im, vscale. cbn [v0 vk vC vL].
  rewrite (rsum_zip_scale c (fun tau => mi_scale (mi_col_K_im adm w tau) s)).
  destruct (vC x), (vL x); simpl; ring.
Qed.

(* ---- (a) all impedances multiplied by k > 0 --------------------------------------------------------------------------- *)
Definition zscale (k : R) (p : R * C) : R * C := (fst p, (RtoC k * snd p)%C).
(* the factor by which the variables scale: k for impedance, 1/k for admittance *)
Definition zfactor (adm : bool) (k : R) : R := if adm then / k else k.

Lemma imm_zscale adm k Z : k <> 0 -> imm adm (RtoC k * Z)%C = (RtoC (zfactor adm k) * imm adm Z)%C.
Proof.
  intro Hk. destruct adm; simpl; [|reflexivity]. destruct Z as [a b].
  destruct (Req_dec (a ^ 2 + b ^ 2) 0) as [H0|H0].
  - assert (a = 0 /\ b = 0) as [-> ->] by (split; nra). unfold Cinv, Cmult; simpl. apply Ceq; simpl; unfold Rdiv; ring.
  - assert (H1 : a * a + b * b <> 0) by (intro Hc; apply H0; nra).
    assert (H2 : k * a * (k * a) + k * b * (k * b) <> 0).
    { replace (k * a * (k * a) + k * b * (k * b)) with (k * k * (a * a + b * b)) by ring.
      repeat apply Rmult_integral_contrapositive_currified; auto. }
    unfold Cinv, Cmult; simpl. apply Ceq; simpl; field; repeat split; auto.
Qed.

Lemma ls_b_zscale t h adm k Z : k <> 0 -> ls_b t h adm (RtoC k * Z)%C = zfactor adm k * ls_b t h adm Z.
Proof. intro Hk. rewrite !ls_b_part, imm_zscale by auto. apply part_scal. Qed.

Lemma ssq_single {X} (f : X -> R) b (r : rowsys X) y : ssq ((f, b) :: r) y = (f y - b) * (f y - b) + ssq r y.
Proof. reflexivity. Qed.
Lemma ssq_nil {X} (y : X) : ssq [] y = 0. Proof. reflexivity. Qed.

Theorem ls_zscale_objective t adm taus k pts y : k <> 0 ->
  ssq (ls_system t adm taus (map (zscale k) pts)) (vscale (zfactor adm k) y)
  = zfactor adm k * zfactor adm k * ssq (ls_system t adm taus pts) y.
Proof.
  intro Hk. unfold ls_system. apply (ssq_pointwise _ _ (zscale k) (vscale (zfactor adm k))).
  intros [w Z] y'. unfold zscale. cbn [fst snd]. destruct t; cbn [halves map];
    rewrite ?ssq_single, ?ssq_nil, !ls_row_scale, !ls_b_zscale by auto; ring.
Qed.

Lemma zfactor_pos adm k : 0 < k -> 0 < zfactor adm k.
Proof. intro H. destruct adm; simpl; auto. apply Rinv_0_lt_compat; auto. Qed.

(* least squares: x fits the spectrum  <->  (k x) resp. (x / k) fits the rescaled spectrum *)
Theorem ls_zscale_minimiser t adm taus k pts x : 0 < k ->
  minimiser (ls_system t adm taus pts) x ->
  minimiser (ls_system t adm taus (map (zscale k) pts)) (vscale (zfactor adm k) x).
Proof.
  intros Hk. pose proof (zfactor_pos adm k Hk) as Hf.
  apply (minimiser_transfer _ _ (vscale (zfactor adm k)) (vscale (/ zfactor adm k)) (zfactor adm k * zfactor adm k)).
  - nra.
  - intro y. apply vscale_inv. lra.
  - intro y. apply ls_zscale_objective. lra.
Qed.

(* the fitted immittance scales with the variables, hence the fitted impedance with k *)
Theorem model_vscale S adm taus w c x : w <> 0 -> c <> 0 -> guard adm x ->
  model S adm taus (update adm (vscale c x)) w = (RtoC c * model S adm taus (update adm x) w)%C.
Proof.
  intros Hw Hc Hg.
  assert (Hg' : guard adm (vscale c x)).
  { destruct adm; simpl in *.
    - destruct Hg as [H0 HL]. split; [apply Rmult_integral_contrapositive; auto|].
      intros l Hl. destruct (vL x) as [l0|]; simpl in Hl; [|discriminate]. inversion Hl; subst.
      apply Rmult_integral_contrapositive; split; auto.
    - intros c0 Hc0. destruct (vC x) as [c1|]; simpl in Hc0; [|discriminate]. inversion Hc0; subst.
      apply Rmult_integral_contrapositive; split; auto. }
  apply Ceq.
  - pose proof (ls_design_consistent S TReal false adm taus w (vscale c x) Hw Hg') as H1.
    pose proof (ls_design_consistent S TReal false adm taus w x Hw Hg) as H2.
    simpl part in H1, H2. rewrite <- H1, Re_scal, <- H2. apply ls_row_scale.
  - pose proof (ls_design_consistent S TImag false adm taus w (vscale c x) Hw Hg') as H1.
    pose proof (ls_design_consistent S TImag false adm taus w x Hw Hg) as H2.
    simpl part in H1, H2. rewrite <- H1, Im_scal, <- H2. apply ls_row_scale.
Qed.

(* relative residuals (analysis/utility.py, gen/Formulas_gen.v) do not change when data and fit are scaled together *)
Theorem residuals_scale_invariant k zr zi fr fi : 0 < k ->
  residual_re (k * zr) (k * zi) (k * fr) (k * fi) = residual_re zr zi fr fi
  /\ residual_im (k * zr) (k * zi) (k * fr) (k * fi) = residual_im zr zi fr fi.
Proof.
  intro Hk. unfold residual_re, residual_im.
  assert (E : sqrt (k * zr * (k * zr) + k * zi * (k * zi)) = k * sqrt (zr * zr + zi * zi)).
  { replace (k * zr * (k * zr) + k * zi * (k * zi)) with (k * k * (zr * zr + zi * zi)) by ring.
    rewrite sqrt_mult; [|nra|nra]. rewrite sqrt_square; lra. }
  rewrite E. destruct (Req_dec (sqrt (zr * zr + zi * zi)) 0) as [H0|H0].
  - rewrite H0, Rmult_0_r. unfold Rdiv. rewrite Rinv_0. split; ring.
  - split; field; split; auto; lra.
Qed.

(* matrix inversion: the right-hand side is invariant and the rows are divided by the factor *)
Lemma Cmod_scal_pos c z : 0 < c -> Cmod (RtoC c * z)%C = c * Cmod z.
Proof. intro Hc. rewrite Cmod_mult, Cmod_R, Rabs_pos_eq; lra. Qed.

Theorem mi_zscale_objective t adm taus k pts y : 0 < k ->
  ssq (mi_system t adm taus (map (zscale k) pts)) (vscale (zfactor adm k) y) = 1 * 1 * ssq (mi_system t adm taus pts) y.
Proof.
  intro Hk. pose proof (zfactor_pos adm k Hk) as Hf. unfold mi_system.
  apply (ssq_pointwise _ _ (zscale k) (vscale (zfactor adm k))).
  intros [w Z] y'. unfold zscale. cbn [fst snd]. rewrite imm_zscale by lra.
  set (X := imm adm Z). rewrite Cmod_scal_pos by auto.
  assert (Hre : forall s, mi_row_re adm taus w (zfactor adm k * s) (vscale (zfactor adm k) y') = mi_row_re adm taus w s y').
  { intro s. rewrite mi_row_re_scale, !mi_row_re_ls. unfold Rdiv.
    destruct (Req_dec s 0) as [->|Hs]; [rewrite Rmult_0_r, Rinv_0; ring|field; split; auto; lra]. }
  assert (Him : forall s, mi_row_im adm taus w (zfactor adm k * s) (vscale (zfactor adm k) y') = mi_row_im adm taus w s y').
  { intro s. rewrite mi_row_im_scale, !mi_row_im_ls. unfold Rdiv.
    destruct (Req_dec s 0) as [->|Hs]; [rewrite Rmult_0_r, Rinv_0; ring|field; split; auto; lra]. }
  assert (Hbre : mi_b_re (RtoC (zfactor adm k) * X)%C = mi_b_re X).
  { unfold mi_b_re. rewrite Cmod_scal_pos, Re_scal by auto. unfold Rdiv.
    destruct (Req_dec (Cmod X) 0) as [->|Hs]; [rewrite Rmult_0_r, Rinv_0; ring|field; split; auto; lra]. }
  assert (Hbim : mi_b_im (RtoC (zfactor adm k) * X)%C = mi_b_im X).
  { unfold mi_b_im. rewrite Cmod_scal_pos, Im_scal by auto. unfold Rdiv.
    destruct (Req_dec (Cmod X) 0) as [->|Hs]; [rewrite Rmult_0_r, Rinv_0; ring|field; split; auto; lra]. }
  destruct t; rewrite ?ssq_single, ?ssq_nil, ?Hre, ?Him, ?Hbre, ?Hbim; ring.
Qed.

Theorem mi_zscale_minimiser t adm taus k pts x : 0 < k ->
  minimiser (mi_system t adm taus pts) x ->
  minimiser (mi_system t adm taus (map (zscale k) pts)) (vscale (zfactor adm k) x).
Proof.
  intros Hk. pose proof (zfactor_pos adm k Hk) as Hf.
  apply (minimiser_transfer _ _ (vscale (zfactor adm k)) (vscale (/ zfactor adm k)) (1 * 1)).
  - lra.
  - intro y. apply vscale_inv. lra.
  - intro y. apply mi_zscale_objective. auto.
Qed.

(* ---- (b) all frequencies multiplied by c > 0 --------------------------------------------------------------------------- *)
(* time constants follow the frequency window: tau_k -> tau_k / c *)
Lemma ln10_neq0 : ln 10 <> 0.
Proof. pose proof (ln_lt_2) as H. assert (0 < ln 10); [|lra]. rewrite <- ln_1. apply ln_increasing; lra. Qed.

Lemma pow10_log10 x : 0 < x -> pow10 (log10 x) = x.
Proof. intro H. unfold pow10, log10. replace (ln x / ln 10 * ln 10) with (ln x) by (field; apply ln10_neq0). apply exp_ln; auto. Qed.

Lemma pow10_plus a b : pow10 (a + b) = pow10 a * pow10 b.
Proof. unfold pow10. rewrite Rmult_plus_distr_r. apply exp_plus. Qed.

Lemma log10_div a b : 0 < a -> 0 < b -> log10 (a / b) = log10 a - log10 b.
Proof. intros Ha Hb. unfold log10. change (a / b) with (a * / b). rewrite ln_mult, ln_Rinv; auto; [field; apply ln10_neq0|apply Rinv_0_lt_compat; auto]. Qed.

Theorem kk_tau_fscale c tmin tmax n k : 0 < c -> 0 < tmin -> 0 < tmax ->
  kk_tau (tmin / c) (tmax / c) n k = kk_tau tmin tmax n k / c.
Proof.
  intros Hc Hmin Hmax. unfold kk_tau.
  replace (tmax / c / (tmin / c)) with (tmax / tmin) by (field; split; lra).
  rewrite log10_div by auto.
  replace (log10 tmin - log10 c + (k - 1) / (n - 1) * log10 (tmax / tmin))
    with ((log10 tmin + (k - 1) / (n - 1) * log10 (tmax / tmin)) + - log10 c) by ring.
  rewrite pow10_plus. unfold Rdiv at 3. f_equal.
  unfold pow10, log10. replace (- (ln c / ln 10) * ln 10) with (- ln c) by (field; apply ln10_neq0).
  rewrite exp_Ropp, exp_ln; auto.
Qed.

Theorem kk_window_fscale c wmin wmax F : 0 < c -> 0 < wmin -> 0 < wmax -> 0 < F ->
  kk_tau_min (c * wmax) F = kk_tau_min wmax F / c /\ kk_tau_max (c * wmin) F = kk_tau_max wmin F / c.
Proof. intros. unfold kk_tau_min, kk_tau_max. split; field; repeat split; lra. Qed.

Definition fscale_pt (c : R) (p : R * C) : R * C := (c * fst p, snd p).
Definition fscale_vars (adm : bool) (c : R) (x : vars) : vars :=
  if adm then mkVars (v0 x) (map (Rmult (/ c)) (vk x)) (option_map (Rmult (/ c)) (vC x)) (option_map (Rmult c) (vL x))
  else mkVars (v0 x) (vk x) (option_map (Rmult c) (vC x)) (option_map (Rmult (/ c)) (vL x)).

Lemma ls_kth_fscale adm c w tau : c <> 0 ->
  ls_kth adm (c * w) (tau / c) = (RtoC (if adm then c else 1) * ls_kth adm w tau)%C.
Proof.
  intro Hc. unfold ls_kth. destruct adm.
  - replace (c * w * (tau / c)) with (w * tau) by (field; auto).
    replace (RtoC (c * w)) with (RtoC c * RtoC w)%C by (apply Ceq; simpl; ring). unfold Cdiv. ring.
  - replace (Ci * RtoC (c * w) * RtoC (tau / c))%C with (Ci * RtoC w * RtoC tau)%C.
    + rewrite Cmult_1_l. reflexivity.
    + apply Ceq; simpl; field; auto.
Qed.

Lemma rsum_zip_fscale (g g' : R -> R) (d : R) ks : forall taus c,
  (forall tau, g' (tau / c) = d * g tau) ->
  rsum (map (fun kt => g' (snd kt) * fst kt) (zip ks (map (fun tau => tau / c) taus)))
  = d * rsum (map (fun kt => g (snd kt) * fst kt) (zip ks taus)).
Proof.
  induction ks as [|k ks IH]; intros [|tau taus] c H; simpl; try ring. rewrite (IH taus c H), H. ring.
Qed.

Lemma rsum_zip_scale' c (g : R -> R) ks : forall taus,
  rsum (map (fun kt => g (snd kt) * fst kt) (zip (map (Rmult c) ks) taus))
  = c * rsum (map (fun kt => g (snd kt) * fst kt) (zip ks taus)).
Proof. apply rsum_zip_scale. Qed.

(* every row of the rescaled problem, applied to the rescaled variables, is the original row applied to the original ones *)
Theorem ls_row_fscale t h adm taus w c x : c <> 0 -> w <> 0 ->
  ls_row t h adm (map (fun tau => tau / c) taus) (c * w) (fscale_vars adm c x) = ls_row t h adm taus w x.
Proof.
  intros Hc Hw. unfold ls_row, fscale_vars. destruct adm; cbn [v0 vk vC vL].
  - rewrite (rsum_zip_scale' (/ c) (fun tau => ls_col_K t h true (c * w) tau)).
    rewrite (rsum_zip_fscale (fun tau => ls_col_K t h true w tau) (fun tau => ls_col_K t h true (c * w) tau) c).
    + destruct (vC x), (vL x); destruct t, h; simpl; field; auto.
    + intro tau. rewrite !ls_col_K_part, ls_kth_fscale by auto. apply part_scal.
  - rewrite (rsum_zip_fscale (fun tau => ls_col_K t h false w tau) (fun tau => ls_col_K t h false (c * w) tau) 1).
    + destruct (vC x), (vL x); destruct t, h; simpl; field; auto.
    + intro tau. rewrite !ls_col_K_part, ls_kth_fscale by auto. apply part_scal.
Qed.

Lemma fscale_vars_inv adm c x : c <> 0 -> fscale_vars adm c (fscale_vars adm (/ c) x) = x.
Proof.
  intro Hc. destruct adm; apply vars_eq; simpl; auto.
  - rewrite map_map. rewrite <- (map_id (vk x)) at 2. apply map_ext. intro a. field; auto.
  - destruct (vC x); simpl; auto. f_equal. field; auto.
  - destruct (vL x); simpl; auto. f_equal. field; auto.
  - destruct (vC x); simpl; auto. f_equal. field; auto.
  - destruct (vL x); simpl; auto. f_equal. field; auto.
Qed.

Theorem ls_fscale_objective t adm taus c pts y : c <> 0 -> List.Forall (fun p => fst p <> 0) pts ->
  ssq (ls_system t adm (map (fun tau => tau / c) taus) (map (fscale_pt c) pts)) (fscale_vars adm c y)
  = ssq (ls_system t adm taus pts) y.
Proof.
  intros Hc Hpts. unfold ls_system. induction pts as [|[w Z] l IH]; [reflexivity|].
  inversion Hpts as [|? ? Hw Hl]; subst. simpl in Hw. cbn [map flat_map]. unfold ssq in *. rewrite !map_app.
  assert (Happ : forall a b : list R, rsum (a ++ b) = rsum a + rsum b) by (induction a; simpl; intros; [ring|rewrite IHa; ring]).
  rewrite !Happ, (IH Hl). f_equal. unfold fscale_pt. cbn [fst snd].
  destruct t; cbn [halves map rsum fst snd]; rewrite !ls_row_fscale by auto; reflexivity.
Qed.

Theorem ls_fscale_minimiser t adm taus c pts x : 0 < c -> List.Forall (fun p => fst p <> 0) pts ->
  minimiser (ls_system t adm taus pts) x ->
  minimiser (ls_system t adm (map (fun tau => tau / c) taus) (map (fscale_pt c) pts)) (fscale_vars adm c x).
Proof.
  intros Hc Hpts Hm y'. rewrite <- (fscale_vars_inv adm c y') by lra.
  rewrite !ls_fscale_objective by (auto; lra). apply Hm.
Qed.

(* the fitted circuit of the rescaled problem has, at c w, the immittance the original fit has at w *)
Theorem model_fscale S adm taus w c x : w <> 0 -> c <> 0 -> guard adm x ->
  model S adm (map (fun tau => tau / c) taus) (update adm (fscale_vars adm c x)) (c * w) = model S adm taus (update adm x) w.
Proof.
  intros Hw Hc Hg.
  assert (Hcw : c * w <> 0) by (apply Rmult_integral_contrapositive; auto).
  assert (Hg' : guard adm (fscale_vars adm c x)).
  { destruct adm; simpl in *.
    - destruct Hg as [H0 HL]. split; auto.
      intros l Hl. destruct (vL x) as [l0|]; simpl in Hl; [|discriminate]. inversion Hl; subst.
      apply Rmult_integral_contrapositive; split; auto.
    - intros c0 Hc0. destruct (vC x) as [c1|]; simpl in Hc0; [|discriminate]. inversion Hc0; subst.
      apply Rmult_integral_contrapositive; split; auto. }
  apply Ceq.
  - pose proof (ls_design_consistent S TReal false adm (map (fun tau => tau / c) taus) (c * w) (fscale_vars adm c x) Hcw Hg') as H1.
    pose proof (ls_design_consistent S TReal false adm taus w x Hw Hg) as H2.
    simpl part in H1, H2. rewrite <- H1, <- H2. apply ls_row_fscale; auto.
  - pose proof (ls_design_consistent S TImag false adm (map (fun tau => tau / c) taus) (c * w) (fscale_vars adm c x) Hcw Hg') as H1.
    pose proof (ls_design_consistent S TImag false adm taus w x Hw Hg) as H2.
    simpl part in H1, H2. rewrite <- H1, <- H2. apply ls_row_fscale; auto.
Qed.

(* matrix inversion rows are the least-squares rows divided by |X_exp|, which a frequency rescaling leaves alone *)
Theorem mi_rows_fscale adm taus w s c x : c <> 0 -> w <> 0 ->
  mi_row_re adm (map (fun tau => tau / c) taus) (c * w) s (fscale_vars adm c x) = mi_row_re adm taus w s x
  /\ mi_row_im adm (map (fun tau => tau / c) taus) (c * w) s (fscale_vars adm c x) = mi_row_im adm taus w s x.
Proof.
  intros Hc Hw. rewrite !mi_row_re_ls, !mi_row_im_ls. split; f_equal.
  - replace (without_CL (fscale_vars adm c x)) with (fscale_vars adm c (without_CL x)) by (destruct adm; reflexivity).
    apply ls_row_fscale; auto.
  - apply ls_row_fscale; auto.
Qed.

(* ---- (c) the order of the points ---------------------------------------------------------------------------------------- *)
Lemma rsum_perm a b : Permutation a b -> rsum a = rsum b.
Proof. induction 1; simpl; try lra. Qed.

Theorem ssq_order_irrelevant {X P} (mk : P -> rowsys X) pts pts' y :
  Permutation pts pts' -> ssq (flat_map mk pts) y = ssq (flat_map mk pts') y.
Proof.
  intro H. unfold ssq. apply rsum_perm. apply Permutation_map.
  induction H; simpl; auto.
  - apply Permutation_app_head; auto.
  - rewrite !app_assoc. apply Permutation_app_tail. apply Permutation_app_comm.
  - eapply Permutation_trans; eauto.
Qed.

Corollary ls_order_irrelevant t adm taus pts pts' x :
  Permutation pts pts' -> minimiser (ls_system t adm taus pts) x -> minimiser (ls_system t adm taus pts') x.
Proof.
  intros H Hm y. unfold ls_system. rewrite <- !(ssq_order_irrelevant _ pts pts') by auto. apply Hm.
Qed.
Corollary mi_order_irrelevant t adm taus pts pts' x :
  Permutation pts pts' -> minimiser (mi_system t adm taus pts) x -> minimiser (mi_system t adm taus pts') x.
Proof.
  intros H Hm y. unfold mi_system. rewrite <- !(ssq_order_irrelevant _ pts pts') by auto. apply Hm.
Qed.

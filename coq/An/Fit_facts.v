(* An/Fit_facts.v — the suffix matching of _extract_parameters is unambiguous; the table of fitted parameters reports the
   values of the returned circuit. *)
From Coq Require Import ZArith QArith Bool List Lia.
From PV Require Import Base.Num Base.Outcome Circuit.Tree Circuit.Printer Circuit.Printer_facts Circuit.Ident Circuit.Ident_facts An.Fit.
Import ListNotations.
Local Open Scope nat_scope.

Definition no95 (l : str) : Prop := forall c, In c l -> c <> 95%N.

Lemma dchar_not95 c : is_dchar c = true -> c <> 95%N.
Proof. unfold is_dchar. rewrite andb_true_iff. intros [_ H] ->. apply N.leb_le in H. lia. Qed.

Lemma dec_str_no95 n : no95 (dec_str n).
Proof.
  unfold dec_str. intros c Hc. destruct (dec_digits_ok (Z.of_nat n)) as [_ H]; [lia|].
  rewrite forallb_forall in H. apply dchar_not95. auto.
Qed.

Lemma starts_with_digits a : forall b x, no95 a -> no95 b ->
  starts_with (a ++ 95%N :: x) (b ++ [95%N]) = true -> a = b.
Proof.
  induction a as [|c a IH]; intros [|d b] x Ha Hb H; cbn [app starts_with] in *; auto.
  - apply andb_true_iff in H. destruct H as [H _]. apply N.eqb_eq in H. exfalso. apply (Hb d); [left; reflexivity|]. congruence.
  - apply andb_true_iff in H. destruct H as [H _]. apply N.eqb_eq in H. exfalso. apply (Ha c); [left; reflexivity|]. congruence.
  - apply andb_true_iff in H. destruct H as [H1 H2]. apply N.eqb_eq in H1. subst d. f_equal.
    apply (IH b x); auto; intros y Hy; [apply Ha|apply Hb]; simpl; auto.
Qed.

Lemma starts_with_self a x : starts_with (a ++ 95%N :: x) (a ++ [95%N]) = true.
Proof. induction a as [|c a IH]; cbn [app starts_with]; rewrite N.eqb_refl; [destruct x; reflexivity|]. simpl. exact IH. Qed.

Lemma no95_rev l : no95 l -> no95 (rev l).
Proof. intros H c Hc. apply H. apply in_rev. auto. Qed.

Theorem suffix_unambiguous key i j :
  ends_with (fit_name key j) ([95%N] ++ dec_str i) = true <-> i = j.
Proof.
  unfold ends_with, fit_name. simpl. rewrite !rev_app_distr. simpl. rewrite <- !app_assoc. simpl. split.
  - intro H. apply starts_with_digits in H; try (apply no95_rev, dec_str_no95).
    apply (f_equal (@rev N)) in H. rewrite !rev_involutive in H. unfold dec_str in H.
    apply dec_digits_inj in H; lia.
  - intros ->. apply starts_with_self.
Qed.

Lemma drop_through_no95 a : forall x, no95 a -> drop_through_underscore (a ++ 95%N :: x) = x.
Proof.
  induction a as [|c a IH]; intros x Ha; cbn [app drop_through_underscore].
  - rewrite N.eqb_refl. auto.
  - destruct (N.eqb c 95) eqn:E; [apply N.eqb_eq in E; exfalso; apply (Ha c); simpl; auto|].
    apply IH. intros y Hy. apply Ha. simpl. auto.
Qed.

Lemma rsplit_fit_name key i : rsplit_head (fit_name key i) = key.
Proof.
  unfold rsplit_head, fit_name.
  assert (H : existsb (N.eqb 95) (key ++ [95%N] ++ dec_str i) = true).
  { apply existsb_exists. exists 95%N. split; [apply in_or_app; right; simpl; auto|reflexivity]. }
  rewrite H. rewrite !rev_app_distr. simpl. rewrite <- app_assoc. simpl.
  rewrite drop_through_no95 by (apply no95_rev, dec_str_no95). apply rev_involutive.
Qed.

(* ---- the table reports the values of the returned circuit ------------------------------------------------ *)
Definition upd_element (i : nat) (e : felement) (r : lmresult) : felement :=
  map (fun p => match rget (fit_name (fp_key p) i) r with
                | Some v => mkFP (fp_key p) v (fp_lo p) (fp_hi p) (fp_fixed p)
                | None => p end) e.

Lemma from_lmfit_nth c r i e : nth_error c i = Some e -> nth_error (from_lmfit c r) i = Some (upd_element i e r).
Proof.
  unfold from_lmfit. intro H.
  assert (G : forall (l : fcircuit) k j x, nth_error l j = Some x ->
            nth_error (map (fun ei : felement * nat => upd_element (snd ei) (fst ei) r) (combine l (seq k (length l)))) j
            = Some (upd_element (k + j) x r)).
  { induction l as [|y l IH]; intros k j x Hj; destruct j; simpl in *; try discriminate.
    - inversion Hj; subst. rewrite Nat.add_0_r. auto.
    - rewrite (IH (S k) j x Hj). f_equal. f_equal. lia. }
  apply (G c 0 i e H).
Qed.

Definition var_name (ki : str * nat) : str := fit_name (fst ki) (snd ki).

Lemma in_varying_row i vars r row :
  In row (flat_map (fun n => if ends_with n ([95%N] ++ dec_str i)
                              then match rget n r with Some v => [mkRow (rsplit_head n) v false] | None => [] end
                              else []) (map var_name vars)) ->
  exists k v, In (k, i) vars /\ rget (fit_name k i) r = Some v /\ row = mkRow k v false.
Proof.
  intro H. apply in_flat_map in H. destruct H as (n & Hn & Hrow). apply in_map_iff in Hn.
  destruct Hn as ([k j] & Hname & Hin). unfold var_name in Hname. simpl in Hname. subst n.
  destruct (ends_with (fit_name k j) ([95%N] ++ dec_str i)) eqn:E; [|contradiction].
  apply suffix_unambiguous in E. subst j.
  destruct (rget (fit_name k i) r) as [v|] eqn:Er; [|contradiction].
  destruct Hrow as [Hrow|[]]. rewrite rsplit_fit_name in Hrow. eauto.
Qed.

Theorem table_reports_circuit i e vars r p :
  (forall ki, In ki vars -> rget (var_name ki) r <> None) ->
  In p e ->
  let e' := upd_element i e r in
  let v' := match rget (fit_name (fp_key p) i) r with Some v => v | None => fp_value p end in
  exists row, In row (extract_element i e' (map var_name vars) r) /\ tr_key row = fp_key p /\ tr_value row = v'.
Proof.
  intros Htot Hp e' v'. unfold extract_element.
  set (varying := flat_map _ (map var_name vars)).
  assert (Hdec : forall a b : str * nat, {a = b} + {a <> b}) by (decide equality; [apply Nat.eq_dec|apply (list_eq_dec N.eq_dec)]).
  destruct (in_dec Hdec (fp_key p, i) vars) as [Hin|Hnin].
  - (* a fitted (varying) parameter *)
    destruct (rget (fit_name (fp_key p) i) r) as [v|] eqn:Er; [|exfalso; apply (Htot _ Hin); auto].
    exists (mkRow (fp_key p) v false). split; [|unfold v'; simpl; auto].
    apply in_or_app. left. unfold varying. apply in_flat_map. exists (fit_name (fp_key p) i). split.
    + apply in_map_iff. exists (fp_key p, i). auto.
    + assert (E : ends_with (fit_name (fp_key p) i) ([95%N] ++ dec_str i) = true) by (apply suffix_unambiguous; auto).
      rewrite E, Er. rewrite rsplit_fit_name. simpl. auto.
  - (* not among the variables: reported with the element's current value *)
    set (p' := match rget (fit_name (fp_key p) i) r with
               | Some v => mkFP (fp_key p) v (fp_lo p) (fp_hi p) (fp_fixed p) | None => p end).
    exists (mkRow (fp_key p') (fp_value p') true).
    assert (Hk : fp_key p' = fp_key p) by (unfold p'; destruct (rget _ r); auto).
    assert (Hv : fp_value p' = v') by (unfold p', v'; destruct (rget _ r); auto).
    split; [|simpl; auto]. apply in_or_app. right. apply in_flat_map. exists p'. split.
    + unfold e', upd_element. apply in_map_iff. exists p. auto.
    + assert (Hex : existsb (fun row => str_eqb (tr_key row) (fp_key p')) varying = false).
      { destruct (existsb _ varying) eqn:Ex; auto. exfalso. apply existsb_exists in Ex. destruct Ex as (row & Hrow & Hkey).
        apply in_varying_row in Hrow. destruct Hrow as (k & v & Hkin & _ & ->). simpl in Hkey.
        apply str_eqb_eq in Hkey. rewrite Hk in Hkey. subst k. auto. }
      rewrite Hex. simpl. auto.
Qed.

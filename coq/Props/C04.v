(* Props/C04.v — property C04: parse_cdc is total: a circuit or a parsing error, never a crash.
   Only statements; proofs are [exact <lemma>] into Circuit/Token_facts.v, Circuit/Parser_facts.v and Circuit/Parser_fuel.v.
   [tokenize] models tokenizer.py character by character, [parse] models Parser.process/parse_cdc. *)
From Coq Require Import ZArith QArith Bool List.
From PV Require Import Base.Num Base.Outcome Circuit.ElemState Circuit.Tree Circuit.Token Circuit.Token_facts
                       Circuit.Parser Circuit.Parser_facts Circuit.Parser_fuel.
From PV Require Import gen.Classes_gen.
Import ListNotations.

(* For EVERY string the tokenizer terminates (the fuel |s|+1 is never exhausted), never crashes, and its only
   errors are UnexpectedCharacter and the ValueError of float(). *)
Theorem C04_tokenize_total :
  forall s, match tokenize s with Ok _ => True | Err e => e = ETokenizing \/ e = EValue | Crash _ => False end.
Proof. exact tokenize_total. Qed.
Print Assumptions C04_tokenize_total.

(* For EVERY string and every well-formed registry, parsing returns a circuit or one of the allowed errors
   (a ParsingError subclass, a tokenizing error, a ValueError): no TypeError, KeyError, IndexError ... on any path, and the model's
   own recursion fuel (4*tokens+10) is never exhausted: every call consumes a token within a bounded number of frames and every
   loop iteration consumes at least one token (Circuit/Parser_fuel.v). *)
Theorem C04_parse_total :
  forall reg s, wf_registry reg = true ->
  match parse reg s with Ok _ => True | Err e => okerr e = true | Crash _ => False end.
Proof. exact parse_total. Qed.
Print Assumptions C04_parse_total.

(* the hypothesis holds for the registry of /repo as it is now (table regenerated on every run) *)
Theorem C04_builtin_registry_wf : wf_registry builtin_registry = true.
Proof. vm_compute. reflexivity. Qed.
Print Assumptions C04_builtin_registry_wf.

(* Stack discipline of the shift/reduce machine, for every token list and every state: a successful
   main_loop/connection/element pushes exactly one node and leaves everything below untouched; parameters and
   a container's sub-circuit leave the stack exactly as they found it. *)
Theorem C04_stack_discipline :
  forall reg, wf_registry reg = true -> forall fuel, core_stmt reg fuel.
Proof. exact core_all. Qed.
Print Assumptions C04_stack_discipline.

(* non-vacuity: a string with nested connections, a container with a bare-list sub-circuit, limits and a label
   is accepted by the model *)
Example C04_nonvacuous :
  (* "R{R=10}(C[RL])Tlm{X_1=RC,L=2F/1/3:a b}" *)
  match parse builtin_registry [82;123;82;61;49;48;125;40;67;91;82;76;93;41;84;108;109;123;88;95;49;61;82;67;44;76;61;50;70;47;49;47;51;58;97;32;98;125]%N with
  | Ok (Ser [NE _ _ _; NC (Par _); NE _ _ _]) => True | _ => False end.
Proof. vm_compute. exact I. Qed.

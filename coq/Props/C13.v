(* Props/C13.v — property C13: DRT results carry the physics.  Statements only; proofs in An/DRT_facts.v over gen/DRT_gen.v,
   regenerated from tr_nnls.py, lm.py and mrq_fit.py on every run.  What is an oracle (nnls, the Loewner pencil's eigenproblem,
   lmfit) is exercised by tools/harness/C13.py. *)
From Coq Require Import Reals List.
From Coquelicot Require Import Coquelicot.
From PV Require Import Cx.CFun gen.DRT_gen gen.El_K An.KKBase gen.KK_gen An.KK_facts An.DRT_facts.
Local Open Scope R_scope.

(* TR-NNLS: the kernel is delta_ln_tau times the real part / minus the imaginary part of the unit parallel RC element *)
Theorem C13_trnnls_kernel_is_unit_RC : forall (S : syms) is_im w tau dlt,
  drt_A_entry is_im w tau dlt = dlt * drt_rhs is_im (K_impl S (fC w) (RtoC 1) (RtoC tau)).
Proof. exact trnnls_kernel_is_unit_RC. Qed.
Print Assumptions C13_trnnls_kernel_is_unit_RC.

Theorem C13_trnnls_model_is_kernel : forall is_im w tau dlt g,
  drt_model_term is_im w tau dlt g = g * drt_A_entry is_im w tau dlt /\ drt_A_entry false 0 tau dlt = dlt.
Proof. intros. split; [apply trnnls_model_term_is_kernel|apply trnnls_kernel_dc]. Qed.
Print Assumptions C13_trnnls_model_is_kernel.

(* scaling the impedance: the normalised impedance (hence A, b, g and tau) is unchanged and gamma scales *)
Theorem C13_trnnls_zscale : forall k Z Zf Zl Rinf Rpol g, k <> 0 -> Rpol <> 0 ->
  drt_R_inf (RtoC k * Zf)%C = k * drt_R_inf Zf
  /\ drt_R_pol (RtoC k * Zf)%C (RtoC k * Zl)%C = k * drt_R_pol Zf Zl
  /\ drt_Z_norm (RtoC k * Z)%C (k * Rinf) (k * Rpol) = drt_Z_norm Z Rinf Rpol
  /\ drt_gamma g (k * Rpol) = k * drt_gamma g Rpol.
Proof.
  intros k Z Zf Zl Rinf Rpol g Hk Hr. destruct (trnnls_normalisation_zscale k Zf Zl) as [H1 H2].
  repeat split; auto; [apply trnnls_Znorm_zscale; auto|apply trnnls_gamma_zscale].
Qed.
Print Assumptions C13_trnnls_zscale.

(* scaling the frequencies: tau is divided by the factor, quadrature widths and kernel entries (hence gamma) are unchanged *)
Theorem C13_trnnls_fscale : forall is_im c w tau ta tb dlt, 0 < c -> w <> 0 -> 0 < ta -> 0 < tb ->
  drt_tau (c * w) = drt_tau w / c
  /\ drt_delta_interior (ta / c) (tb / c) = drt_delta_interior ta tb
  /\ drt_delta_end (ta / c) (tb / c) = drt_delta_end ta tb
  /\ drt_A_entry is_im (c * w) (tau / c) dlt = drt_A_entry is_im w tau dlt.
Proof.
  intros is_im c w tau ta tb dlt Hc Hw Ha Hb. destruct (trnnls_delta_fscale c ta tb Hc Ha Hb) as [H1 H2].
  repeat split; auto; [apply trnnls_tau_fscale; auto; apply Rgt_not_eq; auto|apply trnnls_kernel_fscale; apply Rgt_not_eq; auto].
Qed.
Print Assumptions C13_trnnls_fscale.

(* non-negativity: g >= 0 (nnls) and R_pol > 0 (which holds for RC ladders: the real part decreases with frequency) *)
Theorem C13_trnnls_gamma_nonneg : forall g Rpol, 0 <= g -> 0 < Rpol -> 0 <= drt_gamma g Rpol.
Proof. exact trnnls_gamma_nonneg. Qed.
Print Assumptions C13_trnnls_gamma_nonneg.

Theorem C13_rc_real_part_decreasing : forall (S : syms) w1 w2 r tau, 0 < r -> 0 < tau -> 0 <= w2 -> w2 < w1 ->
  Re (K_impl S (fC w1) (RtoC r) (RtoC tau)) < Re (K_impl S (fC w2) (RtoC r) (RtoC tau)).
Proof. exact rc_real_part_decreasing. Qed.
Print Assumptions C13_rc_real_part_decreasing.

(* Loewner method: a parallel RC element has the pole -1/tau with residue R/tau, and the coded formulas return (tau, R) from them *)
Theorem C13_lm_peak_formulas : forall r tau, 0 < tau ->
  lm_time_constant (RtoC (- / tau)) = tau /\ lm_gamma (RtoC (r / tau)) (RtoC (- / tau)) = r.
Proof. exact lm_peak_formulas. Qed.
Print Assumptions C13_lm_peak_formulas.

Theorem C13_rc_partial_fraction : forall (s : C) r tau, tau <> 0 -> (RtoC 1 + s * RtoC tau)%C <> 0 ->
  (RtoC r / (RtoC 1 + s * RtoC tau))%C = (RtoC (r / tau) / (s - RtoC (- / tau)))%C.
Proof. exact rc_partial_fraction. Qed.
Print Assumptions C13_rc_partial_fraction.

(* m(RQ)fit: both analytic distributions have their maximum at tau_0 = (R Y)^(1/n), which is R C for a capacitor *)
Theorem C13_mrq_peaks_at_tau0 : forall r n W tau tau0, 0 < r -> 0 < n < 1 -> 0 < W -> 0 < tau0 ->
  mrq_gamma_rq r n tau tau0 <= mrq_gamma_rq r n tau0 tau0 /\ mrq_gamma_rc r W tau tau0 <= mrq_gamma_rc r W tau0 tau0.
Proof. intros. split; [apply mrq_rq_peak_at_tau0; auto|apply mrq_rc_peak_at_tau0; auto]. Qed.
Print Assumptions C13_mrq_peaks_at_tau0.

Theorem C13_mrq_tau0_rc : forall r c, 0 < r * c -> mrq_tau_0 r c 1 = r * c.
Proof. exact mrq_tau0_rc. Qed.
Print Assumptions C13_mrq_tau0_rc.

(* Props/C09.v — property C09: Kramers-Kronig verdicts do not depend on units or point order.  Statements only; proofs in
   An/KK_scale.v over the same regenerated definitions as C07. *)
From Coq Require Import Reals Bool List Permutation.
From Coquelicot Require Import Coquelicot.
From PV Require Import Cx.CFun An.KKBase gen.KK_gen gen.Formulas_gen An.KK_facts An.KK_scale.
Import ListNotations.
Local Open Scope R_scope.

(* (a) impedances multiplied by k > 0: the minimisers correspond by x -> k x (impedance) resp. x / k (admittance) *)
Theorem C09_ls_zscale : forall t adm taus k pts x, 0 < k ->
  minimiser (ls_system t adm taus pts) x ->
  minimiser (ls_system t adm taus (map (zscale k) pts)) (vscale (zfactor adm k) x).
Proof. exact ls_zscale_minimiser. Qed.
Print Assumptions C09_ls_zscale.

Theorem C09_mi_zscale : forall t adm taus k pts x, 0 < k ->
  minimiser (mi_system t adm taus pts) x ->
  minimiser (mi_system t adm taus (map (zscale k) pts)) (vscale (zfactor adm k) x).
Proof. exact mi_zscale_minimiser. Qed.
Print Assumptions C09_mi_zscale.

(* the fitted immittance scales with the variables ... *)
Theorem C09_model_zscale : forall (S : syms) adm taus w c x, w <> 0 -> c <> 0 -> guard adm x ->
  model S adm taus (update adm (vscale c x)) w = (RtoC c * model S adm taus (update adm x) w)%C.
Proof. exact model_vscale. Qed.
Print Assumptions C09_model_zscale.

(* ... and relative residuals do not change when data and fit are scaled together (hence neither does pseudo chi-squared, C08) *)
Theorem C09_residuals_scale_invariant : forall k zr zi fr fi, 0 < k ->
  residual_re (k * zr) (k * zi) (k * fr) (k * fi) = residual_re zr zi fr fi
  /\ residual_im (k * zr) (k * zi) (k * fr) (k * fi) = residual_im zr zi fr fi.
Proof. exact residuals_scale_invariant. Qed.
Print Assumptions C09_residuals_scale_invariant.

(* (b) frequencies multiplied by c > 0: the window and every time constant are divided by c ... *)
Theorem C09_window_fscale : forall c wmin wmax F, 0 < c -> 0 < wmin -> 0 < wmax -> 0 < F ->
  kk_tau_min (c * wmax) F = kk_tau_min wmax F / c /\ kk_tau_max (c * wmin) F = kk_tau_max wmin F / c.
Proof. exact kk_window_fscale. Qed.
Print Assumptions C09_window_fscale.

Theorem C09_tau_fscale : forall c tmin tmax n k, 0 < c -> 0 < tmin -> 0 < tmax ->
  kk_tau (tmin / c) (tmax / c) n k = kk_tau tmin tmax n k / c.
Proof. exact kk_tau_fscale. Qed.
Print Assumptions C09_tau_fscale.

(* ... the minimisers correspond (resistances unchanged, capacitances and inductances divided by c) ... *)
Theorem C09_ls_fscale : forall t adm taus c pts x, 0 < c -> List.Forall (fun p => fst p <> 0) pts ->
  minimiser (ls_system t adm taus pts) x ->
  minimiser (ls_system t adm (map (fun tau => tau / c) taus) (map (fscale_pt c) pts)) (fscale_vars adm c x).
Proof. exact ls_fscale_minimiser. Qed.
Print Assumptions C09_ls_fscale.

Theorem C09_mi_rows_fscale : forall adm taus w s c x, c <> 0 -> w <> 0 ->
  mi_row_re adm (map (fun tau => tau / c) taus) (c * w) s (fscale_vars adm c x) = mi_row_re adm taus w s x
  /\ mi_row_im adm (map (fun tau => tau / c) taus) (c * w) s (fscale_vars adm c x) = mi_row_im adm taus w s x.
Proof. exact mi_rows_fscale. Qed.
Print Assumptions C09_mi_rows_fscale.

(* ... and the fitted circuit of the rescaled problem has at c w the immittance the original fit has at w *)
Theorem C09_model_fscale : forall (S : syms) adm taus w c x, w <> 0 -> c <> 0 -> guard adm x ->
  model S adm (map (fun tau => tau / c) taus) (update adm (fscale_vars adm c x)) (c * w) = model S adm taus (update adm x) w.
Proof. exact model_fscale. Qed.
Print Assumptions C09_model_fscale.

(* (c) the order of the points is irrelevant to what the solver minimises *)
Theorem C09_ls_order : forall t adm taus pts pts' x,
  Permutation pts pts' -> minimiser (ls_system t adm taus pts) x -> minimiser (ls_system t adm taus pts') x.
Proof. exact ls_order_irrelevant. Qed.
Print Assumptions C09_ls_order.

Theorem C09_mi_order : forall t adm taus pts pts' x,
  Permutation pts pts' -> minimiser (mi_system t adm taus pts) x -> minimiser (mi_system t adm taus pts') x.
Proof. exact mi_order_irrelevant. Qed.
Print Assumptions C09_mi_order.

(* Props/C10_Limits.v — property C10, the clause "the suggested number of RC elements lies inside the limits it reports", for the
   default settings (suggest_num_RC -> _suggest_using_default).  The selection skeleton is regenerated from the source on every run
   (gen/Suggest_gen.v, tools/tr_suggest.py); the scores, sort keys and the replacement condition are parameters, so the statement
   holds whatever they compute.  Only statements; proofs are [exact <lemma>] into An/Suggest_facts.v. *)
From Coq Require Import ZArith Bool List Lia ZifyBool.
From PV Require Import Base.Outcome gen.Suggest_gen An.Suggest_facts.
Import ListNotations.
Open Scope Z_scope.

(* For every list of candidate test results, every limit function, every reordering [first_pick] that returns elements of its
   argument (what sorted() does), every iteration order and every replacement condition: if the default suggestion returns
   (t, lo, hi) then (lo, hi) are the limits computed by suggest_num_RC_limits, lo < hi, t is one of the candidates and
   lo <= num_RC t <= hi. *)
Theorem C10_suggestion_inside_reported_limits :
  forall (T : Type) (num_RC : T -> Z) limits first_pick order better,
  (forall l x, In x (first_pick l) -> In x l) ->
  forall tests lower upper delta t lo hi,
  suggest_default T num_RC limits first_pick order better tests lower upper delta = Ok (t, lo, hi) ->
  (lo, hi) = limits tests lower upper delta /\ lo <= num_RC t <= hi /\ lo < hi /\ In t tests.
Proof.
  intros T num_RC limits first_pick order better Hsub tests lower upper delta t lo hi H.
  destruct (suggest_within_limits T num_RC limits first_pick order better Hsub tests lower upper delta t lo hi H) as (H1 & H2 & H3 & H4).
  repeat split; auto; unfold in_limits in H2; lia.
Qed.
Print Assumptions C10_suggestion_inside_reported_limits.

(* non-vacuity: candidates with num_RC = 2..9, limits (3, 7), the last candidate within the limits picked first, replaced by 4 *)
Theorem C10_suggestion_example :
  suggest_default Z (fun t => t) (fun _ _ _ _ => (3, 7)) (fun l => rev l) (fun l => l) (fun k s => k =? 4)
                  [2; 3; 4; 5; 6; 7; 8; 9] 0 0 0 = Ok (4, 3, 7).
Proof. vm_compute. reflexivity. Qed.
Print Assumptions C10_suggestion_example.

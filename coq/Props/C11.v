(* Props/C11.v — property C11: Z-HIT reconstructs the modulus from the phase.  Statements only; proofs in An/Zhit_facts.v over
   gen/Zhit_gen.v, regenerated from reconstruction.py, offset.py, weights.py and whittaker_henderson.py on every run. *)
From Coq Require Import Reals List.
From Coquelicot Require Import Coquelicot.
From PV Require Import Cx.CFun gen.Zhit_gen gen.El_R gen.El_C gen.El_L An.KK_facts An.Zhit_facts.
Import ListNotations.
Local Open Scope R_scope.

(* the coded reconstruction is 2/pi * integral - pi/6 * derivative in both representations *)
Theorem C11_recon_formula : forall adm i d, zhit_recon adm zhit_gamma i d = 2 / PI * i - PI / 6 * d.
Proof. exact recon_formula. Qed.
Print Assumptions C11_recon_formula.

(* frequency-independent phase with ln|X| = a + (2 phi/pi) ln w: reconstruction + one constant = the true ln|X| at every point *)
Theorem C11_const_phase_offset_is_constant : forall adm phi a lws lw0,
  zhit_recon adm zhit_gamma (phi * (lw0 - lws)) 0 + (a + 2 * phi / PI * lws) = a + 2 * phi / PI * lw0.
Proof. exact const_phase_offset_is_constant. Qed.
Print Assumptions C11_const_phase_offset_is_constant.

(* and the weighted offset fit returns exactly that constant: unique minimiser of the coded objective *)
Theorem C11_offset_exact_unique : forall c pts,
  exact_up_to c pts -> List.Exists (fun p => weight_of p <> 0) pts ->
  (forall o, objective c pts <= objective o pts) /\ (forall o, objective o pts <= objective c pts -> o = c).
Proof. exact offset_exact_unique. Qed.
Print Assumptions C11_offset_exact_unique.

(* the offset is determined only by points with non-zero weight *)
Theorem C11_offset_zero_weight_irrelevant : forall o (pts pts' : list pt),
  List.Forall2 (fun p q => weight_of p = weight_of q /\ (weight_of p <> 0 -> p = q)) pts pts' ->
  objective o pts = objective o pts'.
Proof. exact offset_zero_weight_irrelevant. Qed.
Print Assumptions C11_offset_zero_weight_irrelevant.

(* scaling the immittance by e^k shifts the fitted offset by k, i.e. scales the reconstruction by the same constant *)
Theorem C11_offset_minimiser_shifts : forall k o pts,
  (forall o', objective o pts <= objective o' pts) ->
  forall o', objective (o + k) (map (shift_measured k) pts) <= objective o' (map (shift_measured k) pts).
Proof. exact offset_minimiser_shifts. Qed.
Print Assumptions C11_offset_minimiser_shifts.

(* window weights lie in [0,1] and vanish outside the window *)
Theorem C11_weights : forall center width lf v,
  0 <= zhit_weight center width lf v <= 1
  /\ (lf < center - width / 2 \/ center + width / 2 < lf -> zhit_weight center width lf v = 0).
Proof. intros. split; [apply weights_in_unit_interval|apply weights_zero_outside_window]. Qed.
Print Assumptions C11_weights.

(* the ideal elements (generated impedances of C02): |Z_R| constant, ln|Z_L| = ln L + ln w, ln|Z_C| = -ln C - ln w *)
Theorem C11_element_moduli : forall (S : syms) w x, 0 < w -> 0 < x ->
  Cmod (R_impl S (fC w) (RtoC x)) = Rabs x
  /\ ln (Cmod (L_impl S (fC w) (RtoC x))) = ln x + 1 * ln w
  /\ ln (Cmod (C_impl S (fC w) (RtoC x))) = - ln x + (-1) * ln w.
Proof. intros S w x Hw Hx. repeat split; [apply resistor_modulus|apply inductor_ln_modulus; auto|apply capacitor_ln_modulus; auto]. Qed.
Print Assumptions C11_element_moduli.

(* smoothing: Whittaker-Henderson penalties of order >= 2 annihilate affine data (so it passes unchanged); a symmetric kernel of unit
   sum returns affine data unchanged; with polynomial_order = 1 the penalty is a first difference and slopes are NOT preserved *)
Theorem C11_whithend_preserves_affine : List.Forall annihilates_affine (tl whithend_coeffs).
Proof. exact whithend_order_ge2_preserves_affine. Qed.
Print Assumptions C11_whithend_preserves_affine.

Theorem C11_symmetric_unit_kernel_preserves_affine : forall k0 ks a b i,
  k0 + 2 * csum_r ks = 1 -> k0 * (a + b * i) + sym_apply ks a b i 1 = a + b * i.
Proof. exact symmetric_unit_kernel_preserves_affine. Qed.
Print Assumptions C11_symmetric_unit_kernel_preserves_affine.

Theorem C11_whithend_order1_refuted :
  match whithend_coeffs with
  | c1 :: _ => (forall a i, stencil c1 a 0 i 0 = 0) /\ (exists a b i, stencil c1 a b i 0 <> 0)
  | [] => False
  end.
Proof. exact whithend_order1_refuted. Qed.
Print Assumptions C11_whithend_order1_refuted.

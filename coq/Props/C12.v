(* Props/C12.v — property C12 (the part a theorem can carry): the table of fitted parameters reports exactly the values of the
   returned circuit, because the suffix matching that attributes lmfit variables to elements is unambiguous.  Recovery of the
   generating parameters by the minimiser and its respect of bounds are lmfit's behaviour: exercised, not proved.
   Only statements; proofs are [exact <lemma>] into An/Fit_facts.v. *)
From Coq Require Import ZArith QArith Bool List.
From PV Require Import Base.Num Base.Outcome Circuit.Tree Circuit.Printer Circuit.Ident An.Fit An.Fit_facts.
Import ListNotations.

(* a variable named key_j ends with "_i" exactly when i = j — for every key (keys may contain underscores and digits) and
   all identifiers, e.g. R_10 is never attributed to element 0 *)
Theorem C12_suffix_unambiguous :
  forall key i j, ends_with (fit_name key j) ([95%N] ++ dec_str i) = true <-> i = j.
Proof. exact suffix_unambiguous. Qed.
Print Assumptions C12_suffix_unambiguous.

(* for every element, every parameter and every result of the minimiser (total on the variables), the table row carrying the
   parameter's key reports the value the element has after the result was written back *)
Theorem C12_table_reports_circuit :
  forall i e vars r p,
  (forall ki, In ki vars -> rget (var_name ki) r <> None) -> In p e ->
  let e' := upd_element i e r in
  let v' := match rget (fit_name (fp_key p) i) r with Some v => v | None => fp_value p end in
  exists row, In row (extract_element i e' (map var_name vars) r) /\ tr_key row = fp_key p /\ tr_value row = v'.
Proof. exact table_reports_circuit. Qed.
Print Assumptions C12_table_reports_circuit.

(* writing the result back touches element i only through its own identifiers *)
Theorem C12_writeback_per_element :
  forall c r i e, nth_error c i = Some e -> nth_error (from_lmfit c r) i = Some (upd_element i e r).
Proof. exact from_lmfit_nth. Qed.
Print Assumptions C12_writeback_per_element.

Example C12_nonvacuous :
  ends_with (fit_name [82%N] 10) ([95%N] ++ dec_str 0) = false /\ ends_with (fit_name [82%N; 95%N; 105%N] 3) ([95%N] ++ dec_str 3) = true.
Proof. vm_compute. auto. Qed.

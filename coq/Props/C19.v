(* Props/C19.v — property C19 (the specifier glue): mock-data specifiers "<ID:key=value,...>" denote ID with exactly those
   keyword arguments; a specifier without a colon denotes itself; the parser never crashes.  Statements only; proofs in
   Cli/Identity_facts.v over the model Cli/Identity.v (checked against _parse_identity).  The rest of the property (printed
   numbers = API numbers) is compared end to end by tools/harness/C19.py. *)
From Coq Require Import ZArith NArith List Bool.
From PV Require Import Base.Outcome Circuit.Tree Cli.Identity Cli.Identity_facts.
Import ListNotations.

Theorem C19_no_colon_is_identity : forall s, absent colon s -> parse_identity s = Ok (s, []).
Proof. exact no_colon_is_identity. Qed.
Print Assumptions C19_no_colon_is_identity.

Theorem C19_specifier_round_trip : forall (id : str) (kvs : list (nat * str)),
  absent colon id -> Forall clean kvs -> NoDup (keys_of kvs) -> kvs <> [] ->
  parse_identity (id ++ colon :: render kvs) = Ok (id, kvs).
Proof. exact specifier_round_trip. Qed.
Print Assumptions C19_specifier_round_trip.

Theorem C19_parse_identity_total : forall s,
  (exists r, parse_identity s = Ok r) \/ parse_identity s = Err EValue \/ parse_identity s = Err EKey.
Proof. exact parse_identity_total. Qed.
Print Assumptions C19_parse_identity_total.

(* Props/C10.v — property C10, the part a proof can carry: the noise estimate reported by the automatic Kramers-Kronig test is the
   inverse of the pseudo chi-squared the library's own noise model produces.  Statements only; proofs in An/KK_noise.v over
   definitions regenerated from kramers_kronig/utility.py, analysis/utility.py and mock_data.py.  The statistical clauses
   (estimated noise of the order of the injected one over seeds, drift detected) are exercised by tools/harness/C10.py on fixed
   seeds and are not theorems. *)
From Coq Require Import Reals List.
From Coquelicot Require Import Coquelicot.
From PV Require Import An.KKBase gen.KK_gen gen.Formulas_gen An.KK_noise.
Local Open Scope R_scope.

Theorem C10_noise_estimator_inverse : forall n p, 0 < n -> 0 <= p ->
  kk_estimate_pct_noise n (kk_estimate_chisqr n p) = p.
Proof. exact noise_estimator_inverse. Qed.
Print Assumptions C10_noise_estimator_inverse.

Theorem C10_chisqr_term_of_noise_model : forall p zr zi a b, zr * zr + zi * zi <> 0 ->
  let sd := mock_sd p (sqrt (zr * zr + zi * zi)) in
  chisqr_term (boukamp_weight zr zi) zr zi (mock_noisy_re zr sd a) (mock_noisy_im zi sd b) = (p / 100) * (p / 100) * (a * a + b * b).
Proof. exact chisqr_term_of_noise_model. Qed.
Print Assumptions C10_chisqr_term_of_noise_model.

Theorem C10_expected_chisqr_matches_estimator : forall p (draws : list (R * R)),
  draws_sum draws = 2 * INR (length draws) ->
  (p / 100) * (p / 100) * draws_sum draws = kk_estimate_chisqr (INR (length draws)) p.
Proof. exact expected_chisqr_matches_estimator. Qed.
Print Assumptions C10_expected_chisqr_matches_estimator.

(* Props/C17.v — property C17 (the selection logic): the winner chosen after a fan-out does not depend on the order in which
   workers finish.  Purity of the workers and bit-stability of the numeric libraries are assumptions exercised by the harness.
   Only statements; proofs are [exact <lemma>] into An/Winner_facts.v. *)
From Coq Require Import ZArith Bool List Permutation.
From PV Require Import An.Winner An.Winner_facts gen.PoolSites_gen.
Import ListNotations.

(* ordered maps (fit_circuit, cnls, evaluate_log_F_ext) return the results in submission order whatever the schedule *)
Theorem C17_ordered_map_schedule_free :
  forall (A B : Type) (f : A -> B) jobs s1 s2, ordered_map f jobs s1 = ordered_map f jobs s2.
Proof. reflexivity. Qed.
Print Assumptions C17_ordered_map_schedule_free.

(* ... and every fan-out of the entry points the property names (fit_circuit, Z-HIT reconstruction and offset adjustment, the
   Kramers-Kronig CNLS and extension searches) collects its results through an ORDERED map: the table is regenerated from the source on
   every run (tools/tr_pool.py: imap/map/starmap = submission order, imap_unordered = completion order). *)
Theorem C17_pool_sites_are_ordered : forallb snd pool_sites = true /\ pool_sites <> [].
Proof. split; [vm_compute; reflexivity|discriminate]. Qed.
Print Assumptions C17_pool_sites_are_ordered.

(* completion order + stable sort by pseudo chi-squared: with pairwise distinct keys the whole ranking, and so the winner,
   is a function of the set of candidates only *)
Theorem C17_sort_schedule_free :
  forall l l', Permutation l l' -> NoDup (map c_key l) -> sort l = sort l'.
Proof. exact sort_schedule_free. Qed.
Print Assumptions C17_sort_schedule_free.

Theorem C17_winner_schedule_free :
  forall l l', Permutation l l' -> NoDup (map c_key l) -> winner l = winner l'.
Proof. exact winner_schedule_free. Qed.
Print Assumptions C17_winner_schedule_free.

Theorem C17_winner_is_min :
  forall l w, winner l = Some w -> forall c, In c l -> (c_key w <= c_key c)%Z.
Proof. exact winner_is_min. Qed.
Print Assumptions C17_winner_is_min.

(* the hypothesis is needed: with a tie the label of the winner follows the completion order (the numbers agree) *)
Example C17_tie_is_schedule_dependent :
  winner [mkCand 5 1; mkCand 5 2] = Some (mkCand 5 1) /\ winner [mkCand 5 2; mkCand 5 1] = Some (mkCand 5 2).
Proof. vm_compute. auto. Qed.

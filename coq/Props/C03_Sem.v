(* Props/C03_Sem.v — property C03, the clause "hence the same impedance" for the basic syntax.  Only statements; proofs are
   [exact <lemma>] into Circuit/Parser_sem.v.  (Kept apart from Props/C03.v: these statements are over Coquelicot's complex numbers
   and depend on the real-number axioms, the others are closed.) *)
From Coq Require Import Reals List.
From Coquelicot Require Import Coquelicot.
From PV Require Import Base.Outcome Circuit.Tree Circuit.Imp Circuit.ImpC Circuit.Parser_basic Circuit.Parser_sem.
Import ListNotations.

(* For EVERY tree c, every registry and every assignment [leaf] of an impedance (finite, zero or open) to the element classes:
   the tree that parse returns for the printed text of c (C03_basic_round_trip_parse: exactly [top n'] with [pconn reg pf c = Some n'])
   has the same value under the pointwise law of C01 as c itself — merging directly nested connections of one kind and unwrapping
   one-element series never change the impedance. *)
Theorem C03_basic_round_trip_same_impedance :
  forall (reg : registry) (leaf : nat -> ez C) pf c n',
  pconn reg pf c = Some n' -> cspec (cct (top n')) leaf = cspec (cct c) leaf.
Proof. exact round_trip_same_impedance. Qed.
Print Assumptions C03_basic_round_trip_same_impedance.

(* the implicit outer series has the impedance of the series of its items *)
Theorem C03_implicit_series_same_impedance :
  forall (reg : registry) (leaf : nat -> ez C) pf l l',
  List.Forall2 (fun x x' => pnode reg pf x = Some x') l l' ->
  cspec (cct (match l' with [x'] => top x' | _ => Ser l' end)) leaf = cspec (CSer (map ct l)) leaf.
Proof. exact implicit_series_same_impedance. Qed.
Print Assumptions C03_implicit_series_same_impedance.

(* parse results contain no empty parallel connection (the side condition of merging parallel connections) *)
Theorem C03_parse_results_well_formed :
  forall reg pf c n', pconn reg pf c = Some n' -> wfr n'.
Proof. intros reg pf c n' H. exact (proj2 (results_wfr reg pf) c n' H). Qed.
Print Assumptions C03_parse_results_well_formed.

(* Props/C06.v — property C06 (the table logic): header detection is sound for every documented spelling, the CLI's table is
   such a file, and the sweep splitter returns one data set per sweep.  Statements only; proofs in Data/Columns_facts.v over the
   alias table regenerated from data_set.py (gen/Aliases_gen.v) and the model Data/Columns.v (checked against the implementation). *)
From Coq Require Import ZArith NArith QArith List Bool.
From PV Require Import Base.Num Base.Outcome Circuit.Tree Data.ColBase gen.Aliases_gen Data.Columns Data.Columns_facts.
Import ListNotations.

(* any column order, any recognised alias, optional sign marker (hyphen or U+2212), any unit suffix of the family
   "", "(...", "/...", " (...", " /...": every kind is detected at its own index with its own sign *)
Theorem C06_detect_sound : forall (cs : list spelled) (raw : list str),
  Forall wf cs -> NoDup (map sk cs) -> map norm raw = map header_of cs ->
  detect_loop raw 0 [] = expected 0 cs.
Proof. exact detect_sound. Qed.
Print Assumptions C06_detect_sound.

(* the alias table has no cross-kind prefix clash under that family, and letter case does not matter *)
Theorem C06_alias_table_ok :
  (no_cross_match = true /\ no_alias_starts_with_marker = true /\ all_kinds_walked = true) /\ aliases_lower_ok = true.
Proof. exact (conj table_ok aliases_case_insensitive). Qed.
Print Assumptions C06_alias_table_ok.

(* the table printed by the CLI (DataSet.to_dataframe's default headers) is such a file, and is detected as f, Re, Im, Mod, Phase *)
Theorem C06_cli_table_is_such_a_file :
  forallb cli_header_ok cli_headers = true
  /\ match detect_columns (map snd cli_headers) with
     | Ok f => found_eqb f [(KFreq, (0, false)); (KReal, (1, false)); (KImag, (2, false)); (KMag, (3, false)); (KPhase, (4, false))]%nat
     | _ => false
     end = true.
Proof. exact (conj cli_headers_in_family cli_table_detected). Qed.
Print Assumptions C06_cli_table_is_such_a_file.

(* whatever _split_sweeps returns partitions the rows, in order, into non-empty strictly monotonic runs *)
Theorem C06_sweeps_partition : forall fs ns,
  split_sweeps fs = Ok ns ->
  concat (chunks ns fs) = fs /\ Forall (fun n => 1 <= n)%nat ns /\ exists dec, Forall (mono dec) (chunks ns fs).
Proof. exact sweeps_partition. Qed.
Print Assumptions C06_sweeps_partition.

(* k consecutive sweeps in one direction, each followed by a jump back, give exactly k data sets of the right lengths *)
Theorem C06_consecutive_sweeps_split : forall dec x y s0 (r : list sweep),
  chain dec ((x, y :: s0) :: r) ->
  split_sweeps (concat (map sw_list ((x, y :: s0) :: r))) = Ok (map (fun s => length (sw_list s)) ((x, y :: s0) :: r)).
Proof. exact consecutive_sweeps_split. Qed.
Print Assumptions C06_consecutive_sweeps_split.

Theorem C06_single_point : forall x, split_sweeps [x] = Ok [1%nat].
Proof. exact single_point_is_one_sweep. Qed.
Print Assumptions C06_single_point.

(* writing a negated column and reading it back with the marker restores the value *)
Theorem C06_sign_round_trip : forall neg q, Qeq (sgn neg (sgn neg q)) q.
Proof. exact sgn_involutive. Qed.
Print Assumptions C06_sign_round_trip.

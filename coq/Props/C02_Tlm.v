(* Props/C02_Tlm.v — property C02 for the container element Tlm.  Statements only; proofs in Circuit/Tlm_facts.v over gen/Tlm_gen.v
   (regenerated from transmission_line_model.py on every run by tools/tr_tlm.py).  Kept apart from Props/C02.v so that a change to
   the container does not hide the theorems of the plain elements, and vice versa. *)
From Coq Require Import Reals ZArith Bool.
From Coquelicot Require Import Coquelicot.
From PV Require Import Cx.CFun Circuit.TlmBase gen.Tlm_gen Circuit.Tlm_facts.
Open Scope C_scope.

(* the container element Tlm (general transmission line): for every state (open, short, value) of its five sub-circuits and every
   L, the numeric route (_impedance with _eq8 .. _eq20) and the symbolic route (_sympy) agree — also on which configurations are
   refused — and with all sub-circuits present the value is the documented equation.  Both routes and the equation are regenerated
   from transmission_line_model.py on every run (tools/tr_tlm.py). *)
Theorem C02_Tlm_numeric_eq_symbolic : forall (S : syms) (x1 x2 za zb ze : sub) (L : C),
  tlm_impl S x1 x2 za zb ze L = tlm_sym S x1 x2 za zb ze L.
Proof. exact tlm_impl_eq_sym. Qed.
Print Assumptions C02_Tlm_numeric_eq_symbolic.

Theorem C02_Tlm_documented_equation : forall (S : syms) (x1 x2 za zb ze L : C),
  tlm_impl S (SVal x1) (SVal x2) (SVal za) (SVal zb) (SVal ze) L = Some (tlm_eqn S x1 x2 za zb ze L).
Proof. exact tlm_general_is_documented_equation. Qed.
Print Assumptions C02_Tlm_documented_equation.

Theorem C02_Tlm_refused_iff : forall (S : syms) (x1 x2 za zb ze : sub) (L : C),
  tlm_impl S x1 x2 za zb ze L = None <->
  (is_open x1 || is_open x2 || (is_short x1 && is_short x2) || is_open ze || is_short ze = true)%bool.
Proof. exact tlm_refused_iff. Qed.
Print Assumptions C02_Tlm_refused_iff.


(* Props/C18.v — property C18: every documented option combination completes or is refused up front (the part a
   theorem can carry: progress bookkeeping never aborts an analysis, notifications carry a fraction in [0,1]).
   Only statements; proofs are [exact <lemma>] or [lia]. *)
From Coq Require Import ZArith QArith Bool List Lia.
From PV Require Import Base.Num Base.Outcome An.Progress An.Progress_facts An.Progress_blocks An.Progress_kk gen.Steps_gen gen.ProgressBlocks_gen gen.KKSteps_gen.
Import ListNotations.

(* every notification carries a fraction between 0 and 1, in every reachable state and for every operation *)
Theorem C18_fraction_in_unit :
  forall s o s' e, pinv s -> op_sane o -> pstep s o = Ok (s', e) ->
  pinv s' /\ forall q, e = Some q -> in_unit q.
Proof. exact pstep_fraction_in_unit. Qed.
Print Assumptions C18_fraction_in_unit.

(* an increment is refused (ValueError) exactly when the counter would pass the announced total *)
Theorem C18_increment_raises_iff :
  forall s st force, (0 < p_total s)%Z ->
  (pstep s (PIncrement st force) = Err EValue <-> (p_total s < p_i s + st)%Z).
Proof.
  intros s st force Ht. simpl. destruct (p_total s <? p_i s + st)%Z eqn:E.
  - apply Z.ltb_lt in E. tauto.
  - apply Z.ltb_ge in E. split; [|lia]. unfold update. assert (Et : (p_total s =? 0)%Z = false) by (apply Z.eqb_neq; lia).
    rewrite Et. destruct (if (p_i s + st =? 0)%Z then None else p_recent s); simpl; try discriminate.
    destruct (Qle_bool _ _); simpl; try discriminate. destruct force; discriminate.
Qed.
Print Assumptions C18_increment_raises_iff.

(* perform_zhit: for ALL numbers of window, smoothing and interpolation options the increments of a complete run plus the
   one of __exit__ equal the announced total ([zhit_total] is translated from the source on every run) *)
Theorem C18_zhit_steps_ok :
  forall nw ns ni, (0 <= nw)%Z -> (0 <= ns)%Z -> (0 <= ni)%Z ->
  (zhit_increments nw ns ni + 1 = zhit_total nw ns ni)%Z.
Proof. intros. unfold zhit_increments, zhit_total. lia. Qed.
Print Assumptions C18_zhit_steps_ok.

(* fit_circuit: for ALL numbers of methods and weights, one increment per collected fit plus the one of __exit__ equal the announced
   total ([fit_total], [fit_increments] are translated from fitting.py on every run; a fit that raises FittingError ends the run with
   the library's own error, which the property allows) *)
Theorem C18_fit_steps_ok :
  forall nm nw, (0 <= nm)%Z -> (0 <= nw)%Z -> (fit_increments nm nw + 1 = fit_total nm nw)%Z.
Proof. intros. unfold fit_increments, fit_total. lia. Qed.
Print Assumptions C18_fit_steps_ok.

(* Every `with Progress(..., total=<literal>)` block of the analysis code (the DRT methods and the peak analysis; the table
   [const_blocks] is regenerated from the source on every run with the largest number of increments on ANY path through each block,
   tools/tr_progress.py) runs to the end on every path: whatever interleaving of at most that many unit increments and plain
   set_message calls the body performs, no increment and not the one of __exit__ is refused, and nothing divides by zero. *)
Theorem C18_constant_blocks_run_to_the_end :
  forall name T m, In (name, T, m) const_blocks ->
  forall ops, forallb block_op ops = true -> (incs ops <= m)%Z ->
  forallb is_ok (prun (mkPr 0 T None) (PEnter :: ops ++ [PExit])) = true /\
  length (prun (mkPr 0 T None) (PEnter :: ops ++ [PExit])) = S (S (length ops)).
Proof.
  assert (Htab : forallb (fun b : list N * Z * Z => let '(_, T, m) := b in (0 <? T)%Z && (m + 1 <=? T)%Z) const_blocks = true)
    by (vm_compute; reflexivity).
  intros name T m Hin ops Hops Hm. rewrite forallb_forall in Htab. specialize (Htab _ Hin). cbn in Htab.
  apply andb_prop in Htab as [H1 H2]. apply Z.ltb_lt in H1. apply Z.leb_le in H2.
  apply block_runs_to_the_end; auto. lia.
Qed.
Print Assumptions C18_constant_blocks_run_to_the_end.

(* evaluate_log_F_ext (Kramers-Kronig tests; totals and stage sizes translated from exploratory.py on every run, the places where the
   progress object is incremented checked structurally by tools/tr_kksteps.py).  On each of its three routes the block runs to the end
   for EVERY size of the job:
   - fixed extension, any list of n numbers of RC elements, any number of collected results (the non-linear implementation may stop
     early), in all three implementations;
   - extension search by the two-stage approach, any accepted number N of evaluations, any number of results either stage collects
     (its grid sizes bound them: points equal to 0 or too close to an earlier point are skipped);
   - extension search by lmfit (N < 0), as long as lmfit calls the residual function at most abs(N) = max_nfev times (its contract). *)
Theorem C18_kk_fixed_extension_runs_to_the_end :
  forall n collected ops, (0 <= collected <= n)%Z -> forallb block_op ops = true -> incs ops = kk_incs_fixed collected ->
  runs_to_the_end (kk_total_fixed n) ops.
Proof. exact kk_fixed_block_runs. Qed.
Print Assumptions C18_kk_fixed_extension_runs_to_the_end.

Theorem C18_kk_two_stage_search_runs_to_the_end :
  forall N c1 c2 ops, (kk_least_evaluations <= N)%Z -> (0 <= c1 <= kk_stage1_points N)%Z -> (0 <= c2 <= kk_stage2_points N (c1 + 1))%Z ->
  forallb block_op ops = true -> incs ops = kk_incs_custom c1 c2 ->
  runs_to_the_end (kk_total_search N) ops.
Proof. exact kk_custom_block_runs. Qed.
Print Assumptions C18_kk_two_stage_search_runs_to_the_end.

Theorem C18_kk_lmfit_search_runs_to_the_end :
  forall N nfev ops, (N < 0)%Z -> (0 <= nfev <= Z.abs N)%Z ->
  forallb block_op ops = true -> incs ops = kk_incs_lmfit nfev ->
  runs_to_the_end (kk_total_search N) ops.
Proof. exact kk_lmfit_block_runs. Qed.
Print Assumptions C18_kk_lmfit_search_runs_to_the_end.

(* NOT PROVED (kept visible): the remaining blocks whose total is an expression (_test_lambda_values, _perform_attempts,
   calculate_drt_tr_rbf) — their number of increments depends on data (break conditions, loops over pools) and is only observed: the
   harness wraps Progress and reports any increment beyond the total as a violation with the option tuple as replay. *)

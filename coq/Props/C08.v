(* Props/C08.v — property C08 (the algebra): the pseudo chi-squared reported by the analyses is the sum of the squared moduli of
   the reported residuals.  The four definitions are regenerated from analysis/utility.py on every run. *)
From Coq Require Import Reals List Lra.
From PV Require Import gen.Formulas_gen.
Import ListNotations.
Open Scope R_scope.

(* per point: weight * |Z_exp - Z_fit|^2 with the default (Boukamp) weight equals |residual|^2 whenever Z_exp <> 0 *)
Theorem C08_chisqr_term_is_residual_modulus_squared :
  forall zr zi fr fi : R, zr * zr + zi * zi <> 0 ->
  chisqr_term (boukamp_weight zr zi) zr zi fr fi
  = residual_re zr zi fr fi * residual_re zr zi fr fi + residual_im zr zi fr fi * residual_im zr zi fr fi.
Proof.
  intros zr zi fr fi H. unfold chisqr_term, boukamp_weight, residual_re, residual_im.
  assert (Hpos : 0 < zr * zr + zi * zi).
  { destruct (Rtotal_order 0 (zr * zr + zi * zi)) as [Hl|[He|Hg]]; auto; [exfalso; apply H; auto|].
    pose proof (Rle_0_sqr zr). pose proof (Rle_0_sqr zi). unfold Rsqr in *. lra. }
  set (s := sqrt (zr * zr + zi * zi)).
  assert (Hs : s * s = zr * zr + zi * zi) by (apply sqrt_sqrt; lra).
  assert (Hs0 : s <> 0) by (intro Hc; rewrite Hc in Hs; lra).
  rewrite <- Hs. field. auto.
Qed.
Print Assumptions C08_chisqr_term_is_residual_modulus_squared.

(* over a whole spectrum: the sum of the terms is the sum of the squared residual moduli *)
Definition point := (R * R * R * R)%type.      (* Z_exp.real, Z_exp.imag, Z_fit.real, Z_fit.imag *)
Definition chisqr (l : list point) : R :=
  fold_right (fun p acc => let '(zr, zi, fr, fi) := p in chisqr_term (boukamp_weight zr zi) zr zi fr fi + acc) 0 l.
Definition sum_sq_residuals (l : list point) : R :=
  fold_right (fun p acc => let '(zr, zi, fr, fi) := p in
                residual_re zr zi fr fi * residual_re zr zi fr fi + residual_im zr zi fr fi * residual_im zr zi fr fi + acc) 0 l.

Theorem C08_chisqr_is_sum_sq_residuals :
  forall l, Forall (fun p => let '(zr, zi, _, _) := p in zr * zr + zi * zi <> 0) l -> chisqr l = sum_sq_residuals l.
Proof.
  induction l as [|[[[zr zi] fr] fi] r IH]; intro H; simpl; auto.
  inversion H; subst. rewrite IH by auto. rewrite C08_chisqr_term_is_residual_modulus_squared by auto. reflexivity.
Qed.
Print Assumptions C08_chisqr_is_sum_sq_residuals.

(* a perfect fit has zero residuals and zero pseudo chi-squared *)
Theorem C08_exact_fit_zero :
  forall zr zi : R, zr * zr + zi * zi <> 0 ->
  residual_re zr zi zr zi = 0 /\ residual_im zr zi zr zi = 0 /\ chisqr_term (boukamp_weight zr zi) zr zi zr zi = 0.
Proof.
  intros zr zi H. unfold residual_re, residual_im, chisqr_term, boukamp_weight.
  assert (Hs : sqrt (zr * zr + zi * zi) <> 0).
  { intro Hc. apply sqrt_eq_0 in Hc; [auto|]. pose proof (Rle_0_sqr zr). pose proof (Rle_0_sqr zi). unfold Rsqr in *. lra. }
  repeat split; field; auto.
Qed.
Print Assumptions C08_exact_fit_zero.

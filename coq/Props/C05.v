(* Props/C05.v — property C05: a data set keeps frequency, impedance and mask of each point together.
   Only statements; every proof is [exact <lemma>] into Data/DataSet_facts.v.
   [model_trace] is the code-shaped model of data_set.py (index dictionaries, flips);
   [spec_trace] is the reference model: a list of (frequency, impedance, masked?) triples. *)
From Coq Require Import ZArith QArith Bool List Permutation.
From PV Require Import Base.Num Base.Outcome Data.DataSet Data.DataSpec Data.DataSet_facts.
Import ListNotations.
Open Scope Z_scope.

(* For every history (constructor arguments in any order with any mask dictionary, then any sequence of
   set_mask / low_pass / high_pass / subtract / export-import (twice, optional keys dropped) / duplicate),
   every observable view after every step is the one of the reference model of triples. *)
Theorem C05_model_refines_reference :
  forall c : dcase, case_wf c = true -> model_trace c = spec_trace c.
Proof. exact model_refines_reference. Qed.
Print Assumptions C05_model_refines_reference.

(* The same physical points supplied ascending, with the mask keyed by their ascending positions, give the
   same data set as supplied descending. *)
Theorem C05_construct_order_irrelevant :
  forall fs zs m, desc fs = true -> length fs = length zs -> fs <> [] ->
  spec_construct (rev fs) (rev zs) (Some (map (fun kv : Z * bool => (Z.of_nat (length fs) - 1 - fst kv, snd kv)) m))
  = spec_construct fs zs (Some m).
Proof. exact construct_order_irrelevant. Qed.
Print Assumptions C05_construct_order_irrelevant.

(* the unmasked and masked views partition the full view *)
Theorem C05_views_partition :
  forall ok ts,
  Permutation (o_un_f (spec_obs ok ts) ++ o_ma_f (spec_obs ok ts)) (o_all_f (spec_obs ok ts)) /\
  Permutation (o_un_z (spec_obs ok ts) ++ o_ma_z (spec_obs ok ts)) (o_all_z (spec_obs ok ts)).
Proof. exact views_partition. Qed.
Print Assumptions C05_views_partition.

(* strictly monotone input (either direction) is presented in strictly descending order, and no
   operation changes the frequencies or their order *)
Theorem C05_descending_preserved :
  forall fs zs mask ops, length fs = length zs -> (desc fs = true \/ asc fs = true) ->
  let ts := spec_construct fs zs mask in
  desc (map tf ts) = true /\ Forall (fun ob => o_all_f ob = map tf ts) (spec_run ts ops).
Proof. intros fs zs mask ops Hl Hm. exact (conj (spec_construct_desc_order fs zs mask Hl Hm) (spec_run_tf ops _)). Qed.
Print Assumptions C05_descending_preserved.

(* the caller's mask dictionary is returned unchanged *)
Theorem C05_caller_mask_untouched :
  forall c, case_wf c = true -> t_caller_mask (model_trace c) = c_mask c.
Proof.
  intros c H. rewrite (model_refines_reference c H). unfold spec_trace.
  destruct (valid_input (c_fs c) (c_zs c)); reflexivity.
Qed.
Print Assumptions C05_caller_mask_untouched.

(* a dictionary export can be imported (also without "version"; without "mask" nothing is masked) any
   number of times: the import succeeds, returns the same data set, and leaves the dictionary unchanged *)
Theorem C05_roundtrip_identity :
  forall ts dv dm, tinv ts ->
  from_dict (drop_keys dv dm (to_dict (repr ts))) =
  (Ok (repr (if dm then map (fun t => (tf t, tz t, false)) ts else ts)), drop_keys dv dm (to_dict (repr ts))).
Proof. exact from_dict_repr. Qed.
Print Assumptions C05_roundtrip_identity.

(* non-vacuity: a concrete ascending input with a mask on its first (lowest-frequency) point *)
Example C05_nonvacuous :
  let c := mkCase [1#1; 10#1; 100#1]%Q [(1#1, 0#1); (2#1, 0#1); (3#1, 0#1)]%Q (Some [(0, true)]) [LowPass (50#1)%Q] in
  case_wf c = true /\
  t_first (spec_trace c) = Some (spec_obs true [((100#1)%Q, ((3#1)%Q, (0#1)%Q), false); ((10#1)%Q, ((2#1)%Q, (0#1)%Q), false); ((1#1)%Q, ((1#1)%Q, (0#1)%Q), true)]).
Proof. vm_compute. auto. Qed.

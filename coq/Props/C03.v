(* Props/C03.v — property C03: circuit description codes mean one circuit, however they are spelled.
   Only statements; proofs are [exact <lemma>] into Circuit/Parser_facts.v.

   What is proved for ALL inputs here is the scope clause ("never moves elements into or out of a container's
   sub-circuit"); the round-trip and spelling clauses are stated below as comments — they are decided per generated
   case inside Coq ([conn_close (norm (round d t)) t'] by vm_compute on the implementation's observed result), which
   is a correspondence-level check, not yet a theorem for all circuits. *)
From Coq Require Import ZArith QArith Bool List.
From PV Require Import Base.Num Base.Outcome Circuit.ElemState Circuit.Tree Circuit.Token Circuit.Parser Circuit.Parser_facts.
From PV Require Import gen.Classes_gen.
Import ListNotations.

(* A container's sub-circuit — in either written form — and a whole parameter block consume only what follows
   their key: whatever was on the parser's stack before is still there, unchanged, afterwards; everything the
   sub-circuit contains was written between its key and the next comma, colon or closing brace. *)
Theorem C03_container_scope :
  forall reg, wf_registry reg = true -> forall fuel depth p,
  (accept KIdent p || accept KLBr p || accept KLPar p = true ->
     good (fun op => pstack (snd op) = pstack p) (subcircuit fuel depth reg p)) /\
  (forall r, wf_rcls r = true ->
     good (fun dp => pstack (snd dp) = pstack p /\ pd_ok r (fst dp)) (parameters fuel depth reg r p)).
Proof.
  intros reg Hreg fuel depth p. destruct (core_all reg Hreg fuel depth p) as (_ & _ & _ & H4 & H5).
  exact (conj H5 H4).
Qed.
Print Assumptions C03_container_scope.

(* an element outside a container stays outside: each main_loop step pushes exactly one node *)
Theorem C03_one_node_per_step :
  forall reg, wf_registry reg = true -> forall fuel depth p,
  good (pushes1 p) (main_loop fuel depth reg p).
Proof. intros reg Hreg fuel depth p. exact (proj1 (core_all reg Hreg fuel depth p)). Qed.
Print Assumptions C03_one_node_per_step.

(* NOT YET PROVED (full statements kept visible):
   roundtrip           : forall reg d t, wf_registry reg -> wf_tree reg t -> printable t -> within_limits t -> limits_distinct d t ->
                         exists t', parse reg (serialize reg d t) = Ok t' /\ conn_close (norm (round d t)) (norm t').
   reserialize_fixpoint: serialize reg d (norm (round d t)) parses to a tree that serialises to the same text.
   spell_sound         : forall ch, parse reg (spell ch t) = Ok t' /\ conn_close (norm t) (norm t').                      *)

(* Props/C03.v — property C03: circuit description codes mean one circuit, however they are spelled.
   Only statements; proofs are [exact <lemma>] into Circuit/Parser_facts.v.

   What is proved for ALL inputs here is the scope clause ("never moves elements into or out of a container's
   sub-circuit"); the round-trip and spelling clauses are stated below as comments — they are decided per generated
   case inside Coq ([conn_close (norm (round d t)) t'] by vm_compute on the implementation's observed result), which
   is a correspondence-level check, not yet a theorem for all circuits. *)
From Coq Require Import ZArith QArith Bool List.
From PV Require Import Base.Num Base.Outcome Circuit.ElemState Circuit.Tree Circuit.Token Circuit.Parser Circuit.Parser_facts.
From PV Require Import Circuit.Registry Circuit.Printer Circuit.Token_decode Circuit.Printer_lex Circuit.Parser_basic Circuit.Parser_mono Circuit.Token_ws Circuit.Parser_ws Circuit.Parser_implicit Circuit.ElemProp Circuit.ElemState_facts Circuit.Token_ext Circuit.Printer_num Circuit.Parser_ext Circuit.Lex_ext gen.Classes_gen.
Import ListNotations.

(* A container's sub-circuit — in either written form — and a whole parameter block consume only what follows
   their key: whatever was on the parser's stack before is still there, unchanged, afterwards; everything the
   sub-circuit contains was written between its key and the next comma, colon or closing brace. *)
Theorem C03_container_scope :
  forall reg, wf_registry reg = true -> forall fuel depth p,
  (accept KIdent p || accept KLBr p || accept KLPar p = true ->
     good (fun op => pstack (snd op) = pstack p) (subcircuit fuel depth reg p)) /\
  (forall r, wf_rcls r = true ->
     good (fun dp => pstack (snd dp) = pstack p /\ pd_ok r (fst dp)) (parameters fuel depth reg r p)).
Proof.
  intros reg Hreg fuel depth p. destruct (core_all reg Hreg fuel depth p) as (_ & _ & _ & H4 & H5).
  exact (conj H5 H4).
Qed.
Print Assumptions C03_container_scope.

(* an element outside a container stays outside: each main_loop step pushes exactly one node *)
Theorem C03_one_node_per_step :
  forall reg, wf_registry reg = true -> forall fuel depth p,
  good (pushes1 p) (main_loop fuel depth reg p).
Proof. intros reg Hreg fuel depth p. exact (proj1 (core_all reg Hreg fuel depth p)). Qed.
Print Assumptions C03_one_node_per_step.

(* The lexical half of the basic-syntax round trip, for EVERY circuit tree (any topology, nesting and size) and every registry
   whose symbols have the validated shape: the scanner splits the text printed by to_string(-1) into exactly the brackets and
   element symbols the printer wrote, in order — no symbol is merged with its neighbour or split in two. *)
Theorem C03_basic_text_lexes_exactly :
  forall reg, (forall r, In r reg -> valid_symbol (r_sym r) = true) ->
  forall fuel c, tokenize (to_string reg None c fuel) = Ok (map item_tok (conn_items fuel reg c)).
Proof. exact basic_text_tokenizes. Qed.
Print Assumptions C03_basic_text_lexes_exactly.

(* non-vacuity: the live built-in registry satisfies the hypothesis *)
Theorem C03_builtin_registry_symbols_valid : forallb (fun r => valid_symbol (r_sym r)) builtin_registry = true.
Proof. vm_compute. reflexivity. Qed.
Print Assumptions C03_builtin_registry_symbols_valid.

(* The basic-syntax round trip as a theorem, for EVERY circuit tree: print with to_string(-1), scan, parse.  [pconn reg pf c]
   is the specification of the result — the printed tree with every element rebuilt at its class defaults, directly nested
   connections of the same kind merged and one-element series unwrapped; it is None exactly when the text is refused (an empty
   connection, a parallel connection of fewer than two items, an unknown class) or the printing fuel pf is too small for c.
   Hypotheses: the registry's symbols have the validated shape and are distinct (both decidable; both hold for the live
   registry, below) and the nesting stays within the parser's recursion budget.  Conclusions: the scanner accepts the text, the
   parser accepts the tokens and returns exactly that tree, and the element types of the result, in order, are those of c. *)
Theorem C03_basic_round_trip :
  forall reg, syms_valid reg = true -> syms_unique reg = true ->
  forall pf c n', pconn reg pf c = Some n' -> (2 * pf <= depth_budget)%nat ->
  exists ts, tokenize (to_string reg None c pf) = Ok ts /\ parse_tokens reg ts = Ok (top n')
             /\ cleaves (top n') = cleaves c.
Proof. exact basic_round_trip_b. Qed.
Print Assumptions C03_basic_round_trip.

(* ... and the same statement about [parse], the model of parse_cdc itself (stripping, the empty-circuit shortcut, the scanner and
   the parser in sequence), for ANY printing fuel that suffices (pf + k: more fuel changes neither the text nor the result):
   parsing the printed text returns exactly the specified tree. *)
Theorem C03_basic_round_trip_parse :
  forall reg, syms_valid reg = true -> syms_unique reg = true ->
  forall pf c n', pconn reg pf c = Some n' -> (2 * pf <= depth_budget)%nat ->
  forall k, parse reg (to_string reg None c (pf + k)) = Ok (top n').
Proof. exact basic_parse_any_fuel. Qed.
Print Assumptions C03_basic_round_trip_parse.

(* White space (one of the alternative spellings): any amount of white space before each bracket and symbol of the printed text and at
   its end changes neither the tokens nor the parsed tree. *)
Theorem C03_basic_whitespace_insensitive :
  forall reg, syms_valid reg = true -> syms_unique reg = true ->
  forall pf c n', pconn reg pf c = Some n' -> (2 * pf <= depth_budget)%nat ->
  forall (wits : list (str * item)) (trail : str),
  map snd wits = conn_items pf reg c -> forallb all_ws (map fst wits) = true -> all_ws trail = true ->
  exists ts, tokenize (spaced_text wits trail) = Ok ts /\ parse_tokens reg ts = Ok (top n').
Proof. exact basic_spaced_round_trip. Qed.
Print Assumptions C03_basic_whitespace_insensitive.

(* The implicit outer series (another alternative spelling): the items of a series written without the outer brackets — "R(RC)" for
   "[R(RC)]" — are scanned and parsed one after the other and assembled into the series of the parsed items (a single item gives what
   the bracketed form gives).  That this tree has the impedance of the bracketed form is C03_implicit_series_same_impedance. *)
Theorem C03_basic_implicit_outer_series :
  forall reg, syms_valid reg = true -> syms_unique reg = true ->
  forall pf l l', List.Forall2 (fun x x' => pnode reg pf x = Some x') l l' -> l <> [] -> (2 * pf <= depth_budget)%nat ->
  exists ts, tokenize (concat (map item_text (flat_map (node_items pf reg) l))) = Ok ts /\
             parse_tokens reg ts = Ok (match l' with [x'] => top x' | _ => Ser l' end).
Proof. exact implicit_series_round_trip. Qed.
Print Assumptions C03_basic_implicit_outer_series.

(* non-vacuity: the live registry meets the hypotheses, and a nested tree over it (series in parallel in series, a nested
   same-kind connection that is merged, a one-element series that is unwrapped) has a parse result *)
Definition c03_example : conn :=
  let e := mkE [] [] in
  (Ser [NE 0 e []; NC (Par [NE 1 e []; NC (Ser [NE 2 e []; NC (Ser [NE 3 e []]); NC (Par [NE 0 e []; NC (Par [NE 1 e []; NE 4 e []])])])])])%nat.
Theorem C03_basic_round_trip_applies :
  syms_valid builtin_registry = true /\ syms_unique builtin_registry = true /\
  (match pconn builtin_registry 12 c03_example with Some n => list_eqb Nat.eqb (cleaves (top n)) [0; 1; 2; 3; 0; 1; 4]%nat | None => false end) = true.
Proof. vm_compute. repeat split. Qed.
Print Assumptions C03_basic_round_trip_applies.

(* ---- the EXTENDED syntax (token level) -----------------------------------------------------------------------------------
   For EVERY tree of elements of classes without sub-circuits (22 of the 23 built-in classes; the general transmission line is the
   exception) whose states the parameter API can reach and print — [elem_okb]: keys of the class in order, lower < upper, no NaN,
   label accepted by set_label, finite value within its limits — take the tokens of the printed form to_string(d): for every element
   the symbol, "{", every parameter as  key = value[F] / lower / upper  (a limit is a number or `inf`), separated by commas, the label
   after ":" when there is one, "}"; brackets around the connections.  Then the parser accepts these tokens and returns the specified
   tree [xpconn]: the same elements — class, label, values, limits and fixed flags of each, in order ([xcleaves]) — with directly
   nested connections of the same kind merged and one-element series unwrapped.
   The values are carried by the number tokens; that the scanner turns the printed characters into these tokens (with every number
   rounded to the printed precision) is C03_extended_round_trip below. *)
Theorem C03_extended_round_trip_tokens :
  forall reg, syms_unique reg = true ->
  forall pf c n', xpconn reg pf c = Some n' -> (2 * pf <= depth_budget)%nat ->
  parse_tokens reg (xctoks reg pf c) = Ok (top n') /\ xcleaves (top n') = xcleaves c.
Proof. exact ext_round_trip_tokens. Qed.
Print Assumptions C03_extended_round_trip_tokens.

(* the step that carries the values: handed the label, values, limits and fixed flags of a reachable in-limits state of its class
   (what the parser read), the constructor sequence of the parser (Class( **values), set_label, _set_limits in its collision-free order,
   set_fixed) returns exactly that state *)
Theorem C03_constructor_rebuilds_the_element :
  forall ci r s, wf_cls (r_cls r) = true -> Inv (r_cls r) s -> within_limits (epars s) = true ->
  build_element ci r (defs_of s) = Ok (NE ci s (r_subdefaults r)).
Proof. exact build_exact. Qed.
Print Assumptions C03_constructor_rebuilds_the_element.

(* ---- the EXTENDED syntax, characters to tree ------------------------------------------------------------------------------------
   The lexical half, proved for every number and every tree: what "%.dE" prints for a finite number is  [-] digit [. d digits] E sign
   digits  (Printer_num.v, for every rational and every d); the scanner consumes exactly that (with the fixed marker), a parameter key
   after "{" or ",", the keyword inf after "/", a label after ":" up to the closing brace, and punctuation, one lexeme per pass
   (Token_ext.v); hence the text to_string(d) prints for a tree of elements without sub-circuits ([lex_conn_ok]: symbols and keys of the
   validated shapes, keys of the class in order, finite values, limits that are numbers or infinite, no printed number beyond the range
   of a double, a label that starts with a letter and whose braces are balanced) is split into exactly the tokens of the theorem above for
   the tree [rd_conn d c] in which every number is replaced by the value float() reads from its printed form (Lex_ext.v).
   Together: print with to_string(d), scan, parse — the result is the specified tree and holds the elements of the printed tree at the
   printed precision, in order. *)
Theorem C03_extended_round_trip :
  forall reg d, syms_unique reg = true ->
  forall pf c n', lex_conn_ok reg d pf c = true -> xpconn reg pf (rd_conn d pf c) = Some n' -> (2 * pf <= depth_budget)%nat ->
  exists ts, tokenize (to_string reg (Some d) c pf) = Ok ts /\ parse_tokens reg ts = Ok (top n')
             /\ xcleaves (top n') = xcleaves (rd_conn d pf c).
Proof. exact ext_round_trip. Qed.
Print Assumptions C03_extended_round_trip.

(* ... and the same statement about [parse], the model of parse_cdc itself (stripping, the empty-circuit shortcut, scanner, parser) *)
Theorem C03_extended_round_trip_parse :
  forall reg d, syms_unique reg = true ->
  forall pf c n', lex_conn_ok reg d pf c = true -> xpconn reg pf (rd_conn d pf c) = Some n' -> (2 * pf <= depth_budget)%nat ->
  parse reg (to_string reg (Some d) c pf) = Ok (top n').
Proof. exact ext_parse. Qed.
Print Assumptions C03_extended_round_trip_parse.

(* the shape of a printed number, for every rational and every number of decimals *)
Theorem C03_printed_number_shape :
  forall d q, fmtE d (Fin q) = num_text (np_neg (fmt_parts d q)) (np_c (fmt_parts d q)) (np_frac (fmt_parts d q)) (np_eneg (fmt_parts d q)) (np_edigs (fmt_parts d q))
              /\ num_shape (np_c (fmt_parts d q)) (np_frac (fmt_parts d q)) (np_edigs (fmt_parts d q)).
Proof. exact Printer_num.fmtE_parts. Qed.
Print Assumptions C03_printed_number_shape.

(* non-vacuity: every built-in class without sub-circuits is admitted at its defaults (22 classes), and a labelled, fixed, re-limited
   resistor in series with a parallel connection that holds a nested series is read back element by element *)
Definition c03_ext_example : conn :=
  let dflt ci := match nth_error builtin_registry ci with Some r => fresh (r_cls r) | None => mkE [] [] end in
  let rct := mkE [99; 116]%N [(0%N, mkP (Fin (50 # 1)) (Fin (1 # 2)) PInf true)] in
  (Ser [NE 11 rct []; NC (Par [NE 0 (dflt 0) []; NC (Ser [NE 11 (dflt 11) []; NC (Ser [NE 19 (dflt 19) []])])])])%nat.
Theorem C03_extended_round_trip_applies :
  syms_unique builtin_registry = true /\
  length (filter (fun r => elem_okb r (fresh (r_cls r))) builtin_registry) = 22%nat /\
  (match xpconn builtin_registry 12 c03_ext_example with
   | Some n => list_eqb Nat.eqb (map fst (xcleaves (top n))) [11; 0; 11; 19]%nat
               && match top n with Ser [NE _ s _; NC (Par [_; NC (Ser [_; _])])] => list_eqb N.eqb (elabel s) [99; 116]%N | _ => false end
   | None => false end) = true /\
  lex_conn_ok builtin_registry 6 12 c03_ext_example = true /\
  (match xpconn builtin_registry 12 (rd_conn 6 12 c03_ext_example) with Some _ => true | None => false end) = true.
Proof. vm_compute. repeat split. Qed.
Print Assumptions C03_extended_round_trip_applies.

(* NOT YET PROVED for the extended syntax at the level of characters and for container elements (full statements kept visible):
   roundtrip           : forall reg d t, wf_registry reg -> wf_tree reg t -> printable t -> within_limits t -> limits_distinct d t ->
                         exists t', parse reg (serialize reg d t) = Ok t' /\ conn_close (norm (round d t)) (norm t').
   reserialize_fixpoint: serialize reg d (norm (round d t)) parses to a tree that serialises to the same text.
   spell_sound         : forall ch, parse reg (spell ch t) = Ok t' /\ conn_close (norm t) (norm t').                      *)

(* Props/C08_Assembly.v — property C08, the assembly clause as far as a structural theorem can carry it: at EVERY call site of the two
   formulas in the analysis code (table regenerated from the source on every run by tools/tr_assembly.py, on all paths and for all
   option values) the residuals and the pseudo chi-squared are computed from the impedances of the data and a model that is not the
   data, and a weight handed to the pseudo chi-squared is Boukamp's weight of the data in the impedance representation.  Which result
   field each value is stored in is observed per entry point by the harness. *)
From Coq Require Import NArith Bool List.
From PV Require Import gen.Assembly_gen.
Import ListNotations.

Definition call_ok (r : list N * bool * bool * bool) : bool := let '(_, e, f, w) := r in e && f && w.

Theorem C08_formulas_are_called_with_data_and_model : forallb call_ok formula_calls = true.
Proof. vm_compute. reflexivity. Qed.
Print Assumptions C08_formulas_are_called_with_data_and_model.

(* the table is not empty of what matters: every module that builds a result object computes its numbers through these formulas *)
Fixpoint prefix (p s : list N) : bool :=
  match p, s with
  | [], _ => true
  | a :: p', b :: s' => N.eqb a b && prefix p' s'
  | _ :: _, [] => false
  end.
Definition str (l : list nat) : list N := map N.of_nat l.
Definition required_modules : list (list N) :=
  [ str [97;110;97;108;121;115;105;115;47;102;105;116;116;105;110;103;46;112;121];                                  (* analysis/fitting.py *)
    str [97;110;97;108;121;115;105;115;47;100;114;116;47;98;104;116;46;112;121];                                    (* analysis/drt/bht.py *)
    str [97;110;97;108;121;115;105;115;47;100;114;116;47;108;109;46;112;121];                                       (* analysis/drt/lm.py *)
    str [97;110;97;108;121;115;105;115;47;100;114;116;47;109;114;113;95;102;105;116;46;112;121];                     (* analysis/drt/mrq_fit.py *)
    str [97;110;97;108;121;115;105;115;47;100;114;116;47;116;114;95;110;110;108;115;46;112;121];                     (* analysis/drt/tr_nnls.py *)
    str [97;110;97;108;121;115;105;115;47;100;114;116;47;116;114;95;114;98;102;46;112;121];                          (* analysis/drt/tr_rbf.py *)
    str [97;110;97;108;121;115;105;115;47;107;114;97;109;101;114;115;95;107;114;111;110;105;103;47;101;120;112;108;111;114;97;116;111;114;121;46;112;121];  (* analysis/kramers_kronig/exploratory.py *)
    str [97;110;97;108;121;115;105;115;47;122;104;105;116;47;95;95;105;110;105;116;95;95;46;112;121] ].              (* analysis/zhit/__init__.py *)

Theorem C08_every_result_module_uses_the_formulas :
  forallb (fun m => existsb (fun r : list N * bool * bool * bool => let '(site, _, _, _) := r in prefix m site) formula_calls) required_modules = true.
Proof. vm_compute. reflexivity. Qed.
Print Assumptions C08_every_result_module_uses_the_formulas.

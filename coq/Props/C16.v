(* Props/C16.v — property C16: element names and identifiers are unique and used consistently.
   Only statements; proofs are [exact <lemma>] into Circuit/Ident_facts.v. *)
From Coq Require Import ZArith Bool List.
From PV Require Import Base.Outcome Circuit.Tree Circuit.Printer Circuit.Printer_facts Circuit.Ident Circuit.Ident_facts Circuit.IdentQueue Circuit.IdentQueue_facts.
From PV Require Import gen.Classes_gen.
Import ListNotations.

(* running identifiers are exactly 0..N-1, in traversal order, one per listed element *)
Theorem C16_running_ids :
  forall es, map snd (running_ids es) = seq 0 (length es) /\ map fst (running_ids es) = map ie_uid es.
Proof. exact running_ids_are_0_to_N. Qed.
Print Assumptions C16_running_ids.

(* per-type identifiers: for every symbol, the elements of that symbol receive 1, 2, ..., k in traversal order *)
Theorem C16_typed_counts :
  forall s es, ids_of s es (typed_ids es) = seq 1 (count_sym s es).
Proof. exact typed_counts. Qed.
Print Assumptions C16_typed_counts.

(* display names: two different elements of a circuit get different names, provided symbols contain no underscore,
   labels are not all digits (what set_label enforces) and labelled elements of one type carry different labels *)
Theorem C16_names_injective :
  forall es i j ei ej, (i < j)%nat -> nth_error es i = Some ei -> nth_error es j = Some ej ->
  nounder (ie_sym ei) = true -> nounder (ie_sym ej) = true ->
  label_ok_ident (ie_label ei) -> label_ok_ident (ie_label ej) ->
  (ie_sym ei = ie_sym ej -> ie_label ei <> [] -> ie_label ei <> ie_label ej) ->
  name_of ei (S (count_sym (ie_sym ei) (firstn i es))) <> name_of ej (S (count_sym (ie_sym ej) (firstn j es))).
Proof. exact names_injective. Qed.
Print Assumptions C16_names_injective.

(* the hypothesis on symbols holds for every built-in class (table regenerated from /repo on every run), so the theorem applies to
   every circuit of built-in elements; user-defined symbols may contain underscores (the registry allows an upper-case letter followed by lower-case letters, digits and underscores), for
   which display names can coincide — outside the statement, and checked on every observed element by the harness *)
Theorem C16_builtin_symbols_have_no_underscore : forallb (fun r => nounder (r_sym r)) builtin_registry = true.
Proof. vm_compute. reflexivity. Qed.
Print Assumptions C16_builtin_symbols_have_no_underscore.

(* [name_of] with that count IS the name the model assigns at that position *)
Theorem C16_names_are_assigned :
  forall es k e, nth_error es k = Some e ->
  nth_error (names es) k = Some (ie_uid e, name_of e (S (count_sym (ie_sym e) (firstn k es)))).
Proof. exact names_nth. Qed.
Print Assumptions C16_names_are_assigned.

(* the traversal lists no element object twice, so every listed object receives exactly one running identifier *)
Theorem C16_traversal_no_duplicates :
  forall fuel c, NoDup (map ie_uid (elems fuel c)) /\ NoDup (map fst (running_ids (elems fuel c))).
Proof. intros. split; [apply elems_no_duplicates|apply running_ids_functional]. Qed.
Print Assumptions C16_traversal_no_duplicates.

(* the traversal reaches exactly the element objects of the tree (sub-circuits of containers included), for any fuel that is not
   smaller than the nesting depth: together with the previous theorem, every element is listed exactly once *)
Theorem C16_traversal_exactly_the_elements :
  forall f c, (depth_conn c <= f)%nat -> forall u, In u (all_uids_conn f c) <-> In u (map ie_uid (elems f c)).
Proof. intros f c H u. split; [apply traversal_complete; auto|apply traversal_sound; auto]. Qed.
Print Assumptions C16_traversal_exactly_the_elements.

(* The traversal AS THE CODE PERFORMS IT (Connection._get_elements_recursive: a first-in first-out work list; a popped sub-circuit is
   replaced by the result of a recursive call appended at the end, a popped element is listed unless listed already and pushes its
   sub-circuits; model Circuit/IdentQueue.v, compared with the observed order on every run) computes exactly the recursive order
   [elems] the theorems above are about — for every tree and any bounds not smaller than the nesting depth:
   whatever the executable model returns is that order; *)
Theorem C16_worklist_returns_the_recursive_order :
  forall d K c res, (depth_conn c <= d)%nat -> qelems d K c = Some res -> res = elems d c.
Proof. exact qelems_is_elems. Qed.
Print Assumptions C16_worklist_returns_the_recursive_order.

(* it does return, for every iteration bound from some point on (the loops terminate although containers inside sub-circuits are
   expanded again and again: every re-expansion only reaches strictly shallower sub-circuits); *)
Theorem C16_worklist_terminates_with_the_recursive_order :
  forall d c, (depth_conn c <= d)%nat -> exists k0, forall K, (k0 <= K)%nat -> qelems d K c = Some (elems d c).
Proof. exact qelems_terminates_with_elems. Qed.
Print Assumptions C16_worklist_terminates_with_the_recursive_order.

(* and in the big-step semantics of the loop (no bounds on iterations at all) the traversal has exactly one result *)
Theorem C16_worklist_semantics_total_and_deterministic :
  forall d c, (depth_conn c <= d)%nat -> QElems d c (elems d c) /\ forall res, QElems d c res -> res = elems d c.
Proof. intros d c H. split; [apply queue_computes_elems; exact H|intros res Hr; apply (queue_result_unique d c res H Hr)]. Qed.
Print Assumptions C16_worklist_semantics_total_and_deterministic.

Example C16_nonvacuous :
  let es := [mkIE 0 [82%N] [] [[82%N]] []; mkIE 1 [67%N] [] [[67%N]] []; mkIE 2 [82%N] [97%N] [[82%N]] []; mkIE 3 [82%N] [] [[82%N]] []] in
  map snd (typed_ids es) = [1; 1; 2; 3]%nat /\ map snd (names es) = [[82; 95; 49]; [67; 95; 49]; [82; 95; 97]; [82; 95; 51]]%N.
Proof. vm_compute. auto. Qed.

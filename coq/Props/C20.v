(* Props/C20.v — property C20: symbolic, LaTeX and diagram exports exist for every circuit.
   What a theorem can say here is structural: the CircuiTikZ source has one component per element of the connections,
   each labelled with that element's symbol and label/identifier, and the unsubstituted symbolic expression is given
   one variable name per parameter.  That the exports run without error (sympy, LaTeX printer, schemdraw) is exercised
   on the implementation, not proved. *)
From Coq Require Import ZArith Bool List.
From PV Require Import Base.Outcome Circuit.Tree Circuit.Printer Circuit.Ident Circuit.Ident_facts.
Import ListNotations.

Theorem C20_one_component_per_element :
  forall fuel running c, length (tikz_components fuel running c) = length (items_conn fuel c).
Proof. intros fuel running c. unfold tikz_components. exact (map_length _ _). Qed.
Print Assumptions C20_one_component_per_element.

Theorem C20_one_variable_per_parameter :
  forall es, map (fun uv => length (snd uv)) (sym_vars es) = map (fun e => length (ie_keys e)) es.
Proof. exact sym_vars_lengths. Qed.
Print Assumptions C20_one_variable_per_parameter.

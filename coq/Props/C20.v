(* Props/C20.v — property C20: symbolic, LaTeX and diagram exports exist for every circuit.
   What a theorem can say here is structural: the CircuiTikZ source has one component per element of the connections,
   each labelled with that element's symbol and label/identifier, and the unsubstituted symbolic expression is given
   one variable name per parameter.  That the exports run without error (sympy, LaTeX printer, schemdraw) is exercised
   on the implementation, not proved. *)
From Coq Require Import ZArith Bool List.
From PV Require Import Base.Outcome Circuit.Tree Circuit.Printer Circuit.Ident Circuit.Ident_facts.
Import ListNotations.

Theorem C20_one_component_per_element :
  forall fuel running c, length (tikz_components fuel running c) = length (items_conn fuel c).
Proof. intros fuel running c. unfold tikz_components. exact (map_length _ _). Qed.
Print Assumptions C20_one_component_per_element.

Theorem C20_one_variable_per_parameter :
  forall es, map (fun uv => length (snd uv)) (sym_vars es) = map (fun e => length (ie_keys e)) es.
Proof. exact sym_vars_lengths. Qed.
Print Assumptions C20_one_variable_per_parameter.

(* The clause "exactly one variable per parameter" needs the names <key>_<label> of different (element, parameter) pairs to differ.
   That is FALSE of the naming scheme (and of the implementation, recorded as known finding C20-variable-name-collision): keys and
   labels may both contain underscores.  Witness "Tlmbq{:B}Q{:B_B}": Y_B of the element labelled B and Y of the element labelled
   B_B are both called Y_B_B, although the element objects and their (non-empty) labels are distinct. *)
Definition c20_witness : list ielt :=
  [mkIE 0 [84;108;109;98;113]%N [66]%N [[89]%N; [89;95;66]%N] []; mkIE 1 [81]%N [66;95;66]%N [[89]%N] []].
Theorem C20_variable_names_distinct_refuted :
  exists es, NoDup (map ie_uid es) /\ NoDup (map ie_label es) /\ (forall e, In e es -> ie_label e <> []) /\
             ~ NoDup (concat (map snd (sym_vars es))).
Proof.
  exists c20_witness. repeat split.
  - repeat constructor; simpl; intuition discriminate.
  - repeat constructor; simpl; intuition discriminate.
  - intros e [<- | [<- | []]]; discriminate.
  - vm_compute. intro H. inversion H as [|x l H1 H2]; subst. inversion H2 as [|y l2 H3 H4]; subst. apply H3. left. reflexivity.
Qed.
Print Assumptions C20_variable_names_distinct_refuted.

(* Props/C15.v — property C15: the element registry and class defaults can always be restored.
   Only statements; proofs are [exact <lemma>] into Circuit/Registry_facts.v. *)
From Coq Require Import ZArith Bool List.
From PV Require Import Base.Outcome Circuit.Tree Circuit.Registry Circuit.Registry_facts.
Import ListNotations.

(* For every table of built-ins (a dictionary with distinct keys, whose private entries are built-in symbols and whose
   classes all have recorded default parameters) and EVERY history of registry operations on user classes, what
   get_elements (all four variants), the built-in classes' defaults and the parser's symbol table show after reset()
   is exactly what they show after a fresh import. *)
Theorem C15_reset_is_fresh :
  forall (b : builtins),
  filter (fun kv => shas (fst kv) (b_elems b)) (b_private b) = b_private b ->
  NoDup (map fst (b_elems b)) ->
  (forall k c, sget k (b_elems b) = Some c -> exists v, dvget c (b_params b) = Some v) ->
  forall ops cands, forallb (user_op b) ops = true ->
  let s := fst (rstep b (rfinal b (init b) ops) (Reset true true)) in
  fresh_view b (map snd (b_elems b)) cands s = fresh_view b (map snd (b_elems b)) cands (init b).
Proof. exact reset_is_fresh. Qed.
Print Assumptions C15_reset_is_fresh.

(* built-in symbols cannot be removed or shadowed: after any history they still map to their original classes *)
Theorem C15_builtins_preserved :
  forall (b : builtins),
  filter (fun kv => shas (fst kv) (b_elems b)) (b_private b) = b_private b ->
  NoDup (map fst (b_elems b)) ->
  forall ops k c, forallb (user_op b) ops = true -> sget k (b_elems b) = Some c ->
  sget k (rs_elems (rfinal b (init b) ops)) = Some c.
Proof. exact builtins_preserved. Qed.
Print Assumptions C15_builtins_preserved.

(* an element whose impedance contradicts its equation, or whose symbol is invalid, is refused and the registry is unchanged *)
Theorem C15_bad_definitions_refused :
  forall b s c sym dv private,
  (valid_symbol (Circuit.ElemState.strip sym) = false ->
     rstep b s (Register c sym dv true private) = (s, RK_err EValue)) /\
  (valid_symbol (Circuit.ElemState.strip sym) = true ->
     snd (rstep b s (Register c sym dv false private)) = RK_err EValue /\
     rs_elems (fst (rstep b s (Register c sym dv false private))) = rs_elems s).
Proof.
  intros b s c sym dv private. split; intro H; simpl; rewrite H; simpl; auto.
Qed.
Print Assumptions C15_bad_definitions_refused.

(* NOT PROVED here (kept visible): symbols_tokenize_uniquely — for symbols of the validated shape [A-Z][a-z0-9_]* the scanner
   splits any concatenation back into exactly those symbols (so L, La, Ls stay distinct); exercised by C04's atom enumeration. *)

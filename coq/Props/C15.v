(* Props/C15.v — property C15: the element registry and class defaults can always be restored.
   Only statements; proofs are [exact <lemma>] into Circuit/Registry_facts.v. *)
From Coq Require Import ZArith Bool List.
From PV Require Import Base.Num Base.Outcome Circuit.Tree Circuit.Token Circuit.Registry Circuit.Registry_facts Circuit.Token_decode gen.Classes_gen.
Import ListNotations.

(* For every table of built-ins (a dictionary with distinct keys, whose private entries are built-in symbols and whose
   classes all have recorded default parameters) and EVERY history of registry operations on user classes, what
   get_elements (all four variants), the built-in classes' defaults and the parser's symbol table show after reset()
   is exactly what they show after a fresh import. *)
Theorem C15_reset_is_fresh :
  forall (b : builtins),
  filter (fun kv => shas (fst kv) (b_elems b)) (b_private b) = b_private b ->
  NoDup (map fst (b_elems b)) ->
  (forall k c, sget k (b_elems b) = Some c -> exists v, dvget c (b_params b) = Some v) ->
  forall ops cands, forallb (user_op b) ops = true ->
  let s := fst (rstep b (rfinal b (init b) ops) (Reset true true)) in
  fresh_view b (map snd (b_elems b)) cands s = fresh_view b (map snd (b_elems b)) cands (init b).
Proof. exact reset_is_fresh. Qed.
Print Assumptions C15_reset_is_fresh.

(* built-in symbols cannot be removed or shadowed: after any history they still map to their original classes *)
Theorem C15_builtins_preserved :
  forall (b : builtins),
  filter (fun kv => shas (fst kv) (b_elems b)) (b_private b) = b_private b ->
  NoDup (map fst (b_elems b)) ->
  forall ops k c, forallb (user_op b) ops = true -> sget k (b_elems b) = Some c ->
  sget k (rs_elems (rfinal b (init b) ops)) = Some c.
Proof. exact builtins_preserved. Qed.
Print Assumptions C15_builtins_preserved.

(* an element whose impedance contradicts its equation, or whose symbol is invalid, is refused and the registry is unchanged *)
Theorem C15_bad_definitions_refused :
  forall b s c sym dv private,
  (valid_symbol (Circuit.ElemState.strip sym) = false ->
     rstep b s (Register c sym dv true private) = (s, RK_err EValue)) /\
  (valid_symbol (Circuit.ElemState.strip sym) = true ->
     snd (rstep b s (Register c sym dv false private)) = RK_err EValue /\
     rs_elems (fst (rstep b s (Register c sym dv false private))) = rs_elems s).
Proof.
  intros b s c sym dv private. split; intro H; simpl; rewrite H; simpl; auto.
Qed.
Print Assumptions C15_bad_definitions_refused.

(* the built-in symbol table (regenerated from /repo on every run) is uniquely decodable by the scanner: every concatenation of
   two or of three built-in symbols is split into exactly those symbols, so L, La, Ls or Tlm, Tlmbo, Tlmbs never shadow one another
   (finite statement over the 23 x 23 (x 23) concatenations, decided by computation on the tokenizer model) *)
Definition builtin_symbols : list str := map r_sym builtin_registry.
Definition toks_are (s : str) (expect : list str) : bool :=
  match tokenize s with
  | Ok ts => (fix go (ts : list tok) (ex : list str) : bool :=
                match ts, ex with
                | [], [] => true
                | t :: ts', e :: ex' => (match tk t with KIdent => true | _ => false end) && str_eqb (tstr t) e && go ts' ex'
                | _, _ => false
                end) ts expect
  | _ => false
  end.
Theorem C15_builtin_symbols_tokenize_uniquely :
  forallb (fun a => forallb (fun b => toks_are (a ++ b) [a; b]) builtin_symbols) builtin_symbols = true
  /\ forallb (fun a => forallb (fun b => forallb (fun c => toks_are (a ++ b ++ c) [a; b; c]) builtin_symbols) builtin_symbols) builtin_symbols = true.
Proof. split; vm_compute; reflexivity. Qed.
Print Assumptions C15_builtin_symbols_tokenize_uniquely.

(* ... and the same for EVERY set of registered symbols, built-in or user-defined, at any point of any history: a symbol that
   register_element accepts has the shape [A-Z][a-z0-9_]* (valid_symbol, the model of _validate_element_symbol, tied by the
   correspondence check), and any concatenation of any number of such symbols is split by the scanner into exactly those
   symbols.  Unbounded: all symbols, all lengths, all sequences. *)
Theorem C15_valid_symbols_tokenize_uniquely :
  forall syms : list str, List.Forall (fun s => valid_symbol s = true) syms ->
  tokenize (concat syms) = Ok (map ident_tok syms).
Proof. exact symbols_tokenize_uniquely. Qed.
Print Assumptions C15_valid_symbols_tokenize_uniquely.

(* non-vacuity: the live built-in symbols all satisfy the hypothesis *)
Theorem C15_builtin_symbols_are_valid : forallb valid_symbol builtin_symbols = true.
Proof. vm_compute. reflexivity. Qed.
Print Assumptions C15_builtin_symbols_are_valid.

(* Props/C02.v — property C02: the numeric impedance of every element equals its documented equation.
   One theorem per registered non-container class.  [X_impl] and [X_eqn] are regenerated from /repo on every run
   (gen/El_X.v, tools/tr_elements.py): X_impl from the body of X._impedance, X_eqn from the X._equation string.
   The statement has NO hypothesis on the parameters or the frequency: it holds on the whole limit box and beyond,
   for every interpretation [S] of the function symbols (power, tanh, coth, cosh, sinh).
   Only statements; each proof is [exact <generated lemma>]. *)
From Coq Require Import Reals ZArith.
From Coquelicot Require Import Coquelicot.
From PV Require Import Cx.CFun.
From PV Require Import gen.El_C gen.El_G gen.El_Ga gen.El_H gen.El_Ha gen.El_K gen.El_Ky gen.El_L gen.El_La gen.El_Ls gen.El_Q gen.El_R gen.El_Tlmbo gen.El_Tlmbq gen.El_Tlmbs gen.El_Tlmno gen.El_Tlmnq gen.El_Tlmns gen.El_W gen.El_Wo gen.El_Ws gen.El_Zarc.
Open Scope C_scope.

Theorem C02_C : forall (S : syms) (f p_C : C), C_impl S f p_C = C_eqn S f p_C.
Proof. exact C_impl_eq_eqn. Qed.
Print Assumptions C02_C.

Theorem C02_G : forall (S : syms) (f p_Y p_k p_n : C), G_impl S f p_Y p_k p_n = G_eqn S f p_Y p_k p_n.
Proof. exact G_impl_eq_eqn. Qed.
Print Assumptions C02_G.

Theorem C02_Ga : forall (S : syms) (f p_R p_tau p_n : C), Ga_impl S f p_R p_tau p_n = Ga_eqn S f p_R p_tau p_n.
Proof. exact Ga_impl_eq_eqn. Qed.
Print Assumptions C02_Ga.

Theorem C02_H : forall (S : syms) (f p_dC p_tau p_a p_b : C), H_impl S f p_dC p_tau p_a p_b = H_eqn S f p_dC p_tau p_a p_b.
Proof. exact H_impl_eq_eqn. Qed.
Print Assumptions C02_H.

Theorem C02_Ha : forall (S : syms) (f p_R p_tau p_a p_b : C), Ha_impl S f p_R p_tau p_a p_b = Ha_eqn S f p_R p_tau p_a p_b.
Proof. exact Ha_impl_eq_eqn. Qed.
Print Assumptions C02_Ha.

Theorem C02_K : forall (S : syms) (f p_R p_tau : C), K_impl S f p_R p_tau = K_eqn S f p_R p_tau.
Proof. exact K_impl_eq_eqn. Qed.
Print Assumptions C02_K.

Theorem C02_Ky : forall (S : syms) (f p_C p_tau : C), Ky_impl S f p_C p_tau = Ky_eqn S f p_C p_tau.
Proof. exact Ky_impl_eq_eqn. Qed.
Print Assumptions C02_Ky.

Theorem C02_L : forall (S : syms) (f p_L : C), L_impl S f p_L = L_eqn S f p_L.
Proof. exact L_impl_eq_eqn. Qed.
Print Assumptions C02_L.

Theorem C02_La : forall (S : syms) (f p_L p_n : C), La_impl S f p_L p_n = La_eqn S f p_L p_n.
Proof. exact La_impl_eq_eqn. Qed.
Print Assumptions C02_La.

Theorem C02_Ls : forall (S : syms) (f p_R_i p_R_r p_Y p_n p_d : C), Ls_impl S f p_R_i p_R_r p_Y p_n p_d = Ls_eqn S f p_R_i p_R_r p_Y p_n p_d.
Proof. exact Ls_impl_eq_eqn. Qed.
Print Assumptions C02_Ls.

Theorem C02_Q : forall (S : syms) (f p_Y p_n : C), Q_impl S f p_Y p_n = Q_eqn S f p_Y p_n.
Proof. exact Q_impl_eq_eqn. Qed.
Print Assumptions C02_Q.

Theorem C02_R : forall (S : syms) (f p_R : C), R_impl S f p_R = R_eqn S f p_R.
Proof. exact R_impl_eq_eqn. Qed.
Print Assumptions C02_R.

Theorem C02_Tlmbo : forall (S : syms) (f p_R_i p_Y p_n p_L : C), Tlmbo_impl S f p_R_i p_Y p_n p_L = Tlmbo_eqn S f p_R_i p_Y p_n p_L.
Proof. exact Tlmbo_impl_eq_eqn. Qed.
Print Assumptions C02_Tlmbo.

Theorem C02_Tlmbq : forall (S : syms) (f p_R_i p_Y p_n p_Y_B p_n_B p_L : C), Tlmbq_impl S f p_R_i p_Y p_n p_Y_B p_n_B p_L = Tlmbq_eqn S f p_R_i p_Y p_n p_Y_B p_n_B p_L.
Proof. exact Tlmbq_impl_eq_eqn. Qed.
Print Assumptions C02_Tlmbq.

Theorem C02_Tlmbs : forall (S : syms) (f p_R_i p_Y p_n p_L : C), Tlmbs_impl S f p_R_i p_Y p_n p_L = Tlmbs_eqn S f p_R_i p_Y p_n p_L.
Proof. exact Tlmbs_impl_eq_eqn. Qed.
Print Assumptions C02_Tlmbs.

Theorem C02_Tlmno : forall (S : syms) (f p_R_i p_R_ct p_Y p_n p_L : C), Tlmno_impl S f p_R_i p_R_ct p_Y p_n p_L = Tlmno_eqn S f p_R_i p_R_ct p_Y p_n p_L.
Proof. exact Tlmno_impl_eq_eqn. Qed.
Print Assumptions C02_Tlmno.

Theorem C02_Tlmnq : forall (S : syms) (f p_R_i p_R_ct p_Y p_n p_R_B p_Y_B p_n_B p_L : C), Tlmnq_impl S f p_R_i p_R_ct p_Y p_n p_R_B p_Y_B p_n_B p_L = Tlmnq_eqn S f p_R_i p_R_ct p_Y p_n p_R_B p_Y_B p_n_B p_L.
Proof. exact Tlmnq_impl_eq_eqn. Qed.
Print Assumptions C02_Tlmnq.

Theorem C02_Tlmns : forall (S : syms) (f p_R_i p_R_ct p_Y p_n p_L : C), Tlmns_impl S f p_R_i p_R_ct p_Y p_n p_L = Tlmns_eqn S f p_R_i p_R_ct p_Y p_n p_L.
Proof. exact Tlmns_impl_eq_eqn. Qed.
Print Assumptions C02_Tlmns.

Theorem C02_W : forall (S : syms) (f p_Y p_n : C), W_impl S f p_Y p_n = W_eqn S f p_Y p_n.
Proof. exact W_impl_eq_eqn. Qed.
Print Assumptions C02_W.

Theorem C02_Wo : forall (S : syms) (f p_Y p_B p_n : C), Wo_impl S f p_Y p_B p_n = Wo_eqn S f p_Y p_B p_n.
Proof. exact Wo_impl_eq_eqn. Qed.
Print Assumptions C02_Wo.

Theorem C02_Ws : forall (S : syms) (f p_Y p_B p_n : C), Ws_impl S f p_Y p_B p_n = Ws_eqn S f p_Y p_B p_n.
Proof. exact Ws_impl_eq_eqn. Qed.
Print Assumptions C02_Ws.

Theorem C02_Zarc : forall (S : syms) (f p_R p_tau p_n : C), Zarc_impl S f p_R p_tau p_n = Zarc_eqn S f p_R p_tau p_n.
Proof. exact Zarc_impl_eq_eqn. Qed.
Print Assumptions C02_Zarc.

(* non-vacuity: the record of function symbols is inhabited *)
Example C02_syms_inhabited : syms.
Proof. exact syms_trivial. Qed.

(* Props/C08_Mask.v — property C08, the clause "masked points never influence any of it": every analysis reads a data set through
   get_frequencies()/get_impedances() (the unmasked views; observed on every entry point by the harness, which feeds arbitrary
   values to the masked points), and these views do not depend on what the masked points hold.  Only statements; proofs are
   [exact <lemma>] into Data/DataSet_facts.v (the model of data_set.py tied to the code by C05's correspondence). *)
From Coq Require Import ZArith QArith Bool List.
From PV Require Import Base.Outcome Data.DataSet Data.DataSet_facts gen.DataAccess_gen.
Import ListNotations.
Open Scope Z_scope.

Theorem C08_masked_values_never_reach_the_views :
  forall (fs : list Q) (zs1 zs2 : list cplx) (m : dict),
  agree_unmasked 0 zs1 zs2 m ->
  get_fs (mkDS fs zs1 m) (Some false) = get_fs (mkDS fs zs2 m) (Some false) /\
  get_zs (mkDS fs zs1 m) (Some false) = get_zs (mkDS fs zs2 m) (Some false).
Proof. exact masked_values_irrelevant. Qed.
Print Assumptions C08_masked_values_never_reach_the_views.

(* ... and every analysis function that receives a DataSet reads it only through those views (get_frequencies() / get_impedances()
   without arguments), or hands it on to another such function: the table is regenerated from src/pyimpspec/analysis/**.py on every
   run (tools/tr_dataaccess.py); any other access (masked=..., get_mask, private attributes) makes its entry false. *)
Theorem C08_analyses_read_only_the_unmasked_views : forallb snd data_readers = true /\ data_readers <> [].
Proof. split; [vm_compute; reflexivity|discriminate]. Qed.
Print Assumptions C08_analyses_read_only_the_unmasked_views.

(* non-vacuity: two spectra that differ on a masked point (index 1) satisfy the hypothesis *)
Theorem C08_masked_values_example :
  agree_unmasked 0 [(1, 2); (3, 4); (5, 6)]%Q [(1, 2); (99, -7); (5, 6)]%Q [(1, true)].
Proof. simpl. repeat split; intro H; try discriminate; reflexivity. Qed.
Print Assumptions C08_masked_values_example.

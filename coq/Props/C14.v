(* Props/C14.v — property C14: the element parameter API is a consistent state machine.
   Only statements; every proof is [exact <lemma>] into Circuit/ElemState_facts.v. *)
From Coq Require Import ZArith QArith Bool List.
From PV Require Import Base.Num Base.Outcome Circuit.ElemState Circuit.ElemProp Circuit.ElemState_facts.
From PV Require Import gen.Classes_gen.
Import ListNotations.

(* Master statement: for every class whose defaults are well formed and every sequence of admissible
   calls, the trace of the model satisfies the property predicate [holds_on] — read-back after every
   successful update, a refused update leaves the addressed parameter alone, lower < upper always, a limit
   moved past the value drags the value, resets restore the defaults and always succeed, copies of states
   within limits succeed and are equal, the other instance and the class defaults never change. *)
Theorem C14_model_satisfies_property :
  forall c ops, wf_cls c = true -> forallb op_ok ops = true ->
  holds_on c (fresh c) (fresh c) (wrun c (fresh c) (fresh c) ops) = true.
Proof. intros c ops Hc Ho. exact (run_holds c (fresh c) Hc ops (fresh c) (Inv_fresh c Hc) Ho). Qed.
Print Assumptions C14_model_satisfies_property.

(* the hypothesis [wf_cls] holds for every class registered in /repo now (table regenerated each run) *)
Theorem C14_builtin_classes_wf : forallb wf_cls builtin_classes = true.
Proof. vm_compute. reflexivity. Qed.
Print Assumptions C14_builtin_classes_wf.

(* lower limit strictly below upper limit in every reachable state *)
Theorem C14_invariant_reachable :
  forall c ops, wf_cls c = true -> forallb op_ok ops = true ->
  inv_ps (epars (final c (fresh c) ops)) = true.
Proof. intros c ops Hc Ho. exact (Inv_inv_ps c _ Hc (final_inv c Hc ops (fresh c) (Inv_fresh c Hc) Ho)). Qed.
Print Assumptions C14_invariant_reachable.

(* resetting always succeeds and restores exactly the class defaults, in every reachable state *)
Theorem C14_reset_restores_defaults :
  forall c ops, wf_cls c = true -> forallb op_ok ops = true ->
  let s := final c (fresh c) ops in
  reset_parameters c s [] = (mkE (elabel s) (cdefaults c), ROk).
Proof. intros c ops Hc Ho. exact (reset_all_exact c _ Hc (final_inv c Hc ops (fresh c) (Inv_fresh c Hc) Ho)). Qed.
Print Assumptions C14_reset_restores_defaults.

(* copies succeed and are equal (plain elements: always; containers: when values lie within limits) *)
Theorem C14_copy_equal :
  forall c ops, wf_cls c = true -> forallb op_ok ops = true ->
  let s := final c (fresh c) ops in
  exists cp, do_copy c s = (cp, ROk) /\
             (ccontainer c = false \/ within_limits (epars s) = true -> cp = s).
Proof.
  intros c ops Hc Ho.
  destruct (copy_step c _ Hc (final_inv c Hc ops (fresh c) (Inv_fresh c Hc) Ho)) as (cp & H1 & _ & H3).
  exact (ex_intro _ cp (conj H1 H3)).
Qed.
Print Assumptions C14_copy_equal.

(* a refused single update changes nothing at all *)
Theorem C14_refused_changes_nothing_single :
  forall kd s k v s' r, setter (g_of kd) s (mkA [(k, v)] [] false) = (s', r) -> r <> ROk -> s' = s.
Proof. exact single_refused. Qed.
Print Assumptions C14_refused_changes_nothing_single.

(* non-vacuity: a concrete reachable state with both limits moved above the class default upper limit *)
Example C14_nonvacuous :
  let ops := [SetUpper (mkA [(0%N, VNum (Fin 5000))] [] false); SetLower (mkA [] [(0%N, VNum (Fin 2000))] false)] in
  forallb op_ok ops = true /\ wf_cls cls_R = true /\
  lookup 0%N (epars (final cls_R (fresh cls_R) ops)) = Some (mkP (Fin 2000) (Fin 2000) (Fin 5000) false).
Proof. vm_compute. auto. Qed.

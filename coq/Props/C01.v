(* placeholder *)

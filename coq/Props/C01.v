(* Props/C01.v — property C01: circuit impedance obeys the series/parallel composition laws.
   Only statements; proofs are [exact <lemma>] into Circuit/Imp_facts.v and Circuit/ImpC.v.
   [impl] is the line-by-line model of Series._impedance / Parallel._impedance on vectors of frequencies
   (open-path counter, shorted mask, early returns); [spec] is the pointwise law on extended values. *)
From Coq Require Import Reals ZArith Bool List.
From Coquelicot Require Import Coquelicot.
From PV Require Import Base.Outcome Circuit.Imp Circuit.Imp_facts Circuit.Imp_total Circuit.Imp_uniform Circuit.ImpC.
Import ListNotations.

(* For every number type, every tree (any nesting, any width), every vector length and every assignment of
   leaf vectors: whenever the vector implementation returns, its i-th entry is the pointwise law applied to the
   i-th entries of the leaves. *)
Theorem C01_impl_sound :
  forall (K : Type) (k0 : K) (kadd : K -> K -> K) (kinv : K -> K) (kis0 : K -> bool)
         (leafv : nat -> list (ez K)) (n : nat),
  (forall id, length (leafv id) = n) ->
  forall t v, impl K k0 kadd kinv kis0 leafv n t = Ok v ->
  v = map (fun i => spec K k0 kadd kinv kis0 t (fun id => nth i (leafv id) Inf)) (seq 0 n).
Proof. exact impl_sound. Qed.
Print Assumptions C01_impl_sound.

(* ... and evaluated one frequency at a time the implementation ALWAYS returns, with exactly the law's value: the only refusal of the
   array version (InfiniteImpedance for a vector that is open at some frequencies and not at others) cannot occur for one
   frequency.  Total correctness of Series/Parallel._impedance at a single frequency, for every tree and every leaf values. *)
Theorem C01_single_frequency_total_correct :
  forall (K : Type) (k0 : K) (kadd : K -> K -> K) (kinv : K -> K) (kis0 : K -> bool) (leafv : nat -> list (ez K)),
  (forall id, length (leafv id) = 1%nat) ->
  forall t, impl K k0 kadd kinv kis0 leafv 1 t = Ok [spec K k0 kadd kinv kis0 t (fun id => nth 0 (leafv id) Inf)].
Proof. exact single_frequency_correct. Qed.
Print Assumptions C01_single_frequency_total_correct.

(* ... and evaluated as an ARRAY the implementation returns — with the law's value at every frequency — whenever every branch of every
   parallel connection of the tree is, under the law, open at all of the evaluated frequencies or at none of them ([uniform]); the only
   refusal of the array version is a branch that is open at some frequencies and not at others.  Total correctness on vectors of any
   length under that hypothesis, for every tree. *)
Theorem C01_array_total_correct_when_open_branches_are_uniform :
  forall (K : Type) (k0 : K) (kadd : K -> K -> K) (kinv : K -> K) (kis0 : K -> bool) (leafv : nat -> list (ez K)) (n : nat),
  (forall id, length (leafv id) = n) ->
  forall t, uniform K k0 kadd kinv kis0 leafv n t = true ->
  impl K k0 kadd kinv kis0 leafv n t = Ok (specv K k0 kadd kinv kis0 leafv n t).
Proof. exact uniform_total_correct. Qed.
Print Assumptions C01_array_total_correct_when_open_branches_are_uniform.

(* evaluating as an array and one frequency at a time agree wherever both return *)
Theorem C01_vector_eq_pointwise :
  forall (K : Type) (k0 : K) (kadd : K -> K -> K) (kinv : K -> K) (kis0 : K -> bool)
         (leafv : nat -> list (ez K)) (n : nat) t v (i : nat) x,
  (forall id, length (leafv id) = n) -> (i < n)%nat ->
  impl K k0 kadd kinv kis0 leafv n t = Ok v ->
  impl K k0 kadd kinv kis0 (fun id => [nth i (leafv id) Inf]) 1 t = Ok [x] ->
  nth i v Inf = x.
Proof. exact vector_eq_pointwise. Qed.
Print Assumptions C01_vector_eq_pointwise.

(* the law itself, over the complex numbers *)
Theorem C01_series_law : forall a b : C, cspec (CSer [Leaf 0; Leaf 1]) (two (Zf a) (Zf b)) = Zf (a + b)%C.
Proof. exact series_law. Qed.
Print Assumptions C01_series_law.

Theorem C01_parallel_law : forall a b : C, a <> 0%C -> b <> 0%C -> (/ a + / b <> 0)%C ->
  cspec (CPar [Leaf 0; Leaf 1]) (two (Zf a) (Zf b)) = Zf (/ (/ a + / b))%C.
Proof. exact parallel_law. Qed.
Print Assumptions C01_parallel_law.

Theorem C01_open_branch_contributes_nothing : forall a : C, a <> 0%C ->
  cspec (CPar [Leaf 0; Leaf 1]) (two (Zf a) Inf) = Zf a.
Proof. exact open_branch. Qed.
Print Assumptions C01_open_branch_contributes_nothing.

Theorem C01_shorted_branch_shorts : forall x : ez C,
  cspec (CPar [Leaf 0; Leaf 1]) (two (Zf (RtoC 0)) x) = Zf (RtoC 0).
Proof. exact short_branch. Qed.
Print Assumptions C01_shorted_branch_shorts.

(* NOT YET PROVED (kept visible): spec_flatten : spec (norm t) = spec t up to field equality — independence of the
   construction route then follows from C03's parse (print t) = norm t.  It is checked per generated circuit on the
   implementation (parsed vs object-built, C01 harness). *)

(* a series connection nested directly inside a series connection may be merged into it (the parser does this when it reads a
   code): the impedance prescribed by the law is the same *)
Theorem C01_series_flatten : forall (leaf : nat -> ez C) (a l b : list ctree),
  cspec (CSer (a ++ CSer l :: b)) leaf = cspec (CSer (a ++ l ++ b)) leaf.
Proof. exact series_flatten. Qed.
Print Assumptions C01_series_flatten.

(* the same for a non-empty parallel connection nested directly inside a parallel connection — with every combination of open,
   shorted and mutually cancelling branches *)
Theorem C01_parallel_flatten : forall (leaf : nat -> ez C) (a l b : list ctree), l <> [] ->
  cspec (CPar (a ++ CPar l :: b)) leaf = cspec (CPar (a ++ l ++ b)) leaf.
Proof. exact parallel_flatten. Qed.
Print Assumptions C01_parallel_flatten.
